#!/bin/sh
# Build the overlay environment (offline). Idempotent.
set -e
V=/verif/.venv
if [ ! -x "$V/bin/python" ] || ! "$V/bin/python" -c "import crosshair, z3, typelib" >/dev/null 2>&1; then
  rm -rf "$V"
  /venv/bin/python -m venv "$V"
  SP=$("$V/bin/python" -c "import sysconfig; print(sysconfig.get_paths()['purelib'])")
  echo 'import site; site.addsitedir("/venv/lib/python3.12/site-packages")' > "$SP/verif_overlay.pth"
  PIP_NO_INDEX=1 "$V/bin/python" -m pip install -q --no-index --find-links /opt/veriftools/wheels crosshair-tool >/dev/null
  "$V/bin/python" -c "import crosshair, z3, typelib"
fi
