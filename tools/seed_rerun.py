#!/usr/bin/env python3
"""Development helper: re-run the registered quick check(s) against every stored seeded change
(scratch worktree of /repo + patch; /repo itself is never touched) and refresh seeded/<name>/meta.json.

usage: seed_rerun.py [name ...] [--also PROP,PROP]"""
import json, os, shutil, subprocess, sys, tempfile, time

ROOT = os.path.dirname(os.path.dirname(os.path.abspath(__file__)))


def sh(cmd, cwd=None, env=None):
    p = subprocess.run(cmd, shell=True, cwd=cwd, env=env, capture_output=True, text=True)
    return p.returncode, p.stdout + p.stderr


def main():
    args = [a for a in sys.argv[1:] if not a.startswith("--")]
    also = []
    for a in sys.argv[1:]:
        if a.startswith("--also="):
            also = a.split("=", 1)[1].split(",")
    names = args or sorted(os.listdir(os.path.join(ROOT, "seeded")))
    for name in names:
        d = os.path.join(ROOT, "seeded", name)
        mp = os.path.join(d, "meta.json")
        if not os.path.exists(mp):
            continue
        meta = json.load(open(mp))
        scratch = tempfile.mkdtemp(prefix="seedr_", dir="/tmp")
        wt = os.path.join(scratch, "wt")
        try:
            rc, out = sh(f"git -C /repo worktree add -q --detach {wt} HEAD")
            env0 = dict(os.environ, PYTHONPATH=f"{wt}/src")
            rc0, _ = sh(f"/venv/bin/python {d}/demo.py", cwd=wt, env=env0)
            rc, out = sh(f"git apply {d}/patch.diff", cwd=wt)
            if rc != 0:
                print(name, "PATCH DOES NOT APPLY", out[:200])
                continue
            rc1, out1 = sh(f"/venv/bin/python {d}/demo.py", cwd=wt, env=env0)
            _, head = sh("git -C /repo rev-parse --short HEAD")
            meta["base"] = head.strip()
            meta["demo_unpatched_exit"], meta["demo_patched_exit"] = rc0, rc1
            meta["confirmed"] = rc0 == 0 and rc1 != 0
            if not meta["confirmed"]:
                print(name, f"NOT CONFIRMED on {head.strip()}: demo unpatched={rc0} patched={rc1}")
            ran = []
            for p_ in [meta["property"]] + also:
                t0 = time.time()
                env2 = dict(os.environ, VERIF_REPO=wt, VERIF_OUT=os.path.join(scratch, "out"))
                rc, out = sh(f"{ROOT}/vcheck run {p_} --tier quick", cwd=ROOT, env=env2)
                lines = out.splitlines()
                ran.append({"check": f"vcheck run {p_} --tier quick", "exit": rc, "detected": rc == 1,
                            "summary": next((l for l in lines if l.startswith("[")), "")[:200],
                            "violations": [l.strip()[:260] for l in lines if l.strip().startswith("violated")][:4],
                            "wall_s": round(time.time() - t0, 1)})
            keep = [r for r in meta.get("ran", []) if r["check"] not in {x["check"] for x in ran}]
            meta["ran"] = ran + keep
            json.dump(meta, open(mp, "w"), indent=1)
            print(name, [(r["check"].split()[2], r["detected"]) for r in ran])
        finally:
            sh(f"git -C /repo worktree remove --force {wt}")
            shutil.rmtree(scratch, ignore_errors=True)


if __name__ == "__main__":
    main()
