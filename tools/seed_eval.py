#!/usr/bin/env python3
"""Development helper: confirm a candidate seeded change, store it under /verif/seeded/<name>/ and run
the property's check against a scratch copy of /repo with the change applied (never touches /repo).

usage: seed_eval.py <PROP> <src_dir with patch.diff demo.py notes.md> <name> [extra props to run ...]
"""
import json, os, shutil, subprocess, sys, tempfile, time

ROOT = os.path.dirname(os.path.dirname(os.path.abspath(__file__)))
PY = "/venv/bin/python"


def sh(cmd, cwd=None, env=None, timeout=3600):
    p = subprocess.run(cmd, shell=True, cwd=cwd, env=env, capture_output=True, text=True, timeout=timeout)
    return p.returncode, p.stdout + p.stderr


def main():
    prop, src, name = sys.argv[1], sys.argv[2], sys.argv[3]
    props = [prop] + sys.argv[4:]
    scratch = tempfile.mkdtemp(prefix="seed_", dir="/tmp")
    wt = os.path.join(scratch, "wt")
    try:
        rc, out = sh(f"git -C /repo worktree add -q --detach {wt} HEAD")
        assert rc == 0, out
        env = dict(os.environ, PYTHONPATH=f"{wt}/src")
        meta = {"property": prop, "name": name, "ran": []}
        rc, out = sh(f"{PY} {src}/demo.py", cwd=wt, env=env)
        meta["demo_unpatched_exit"] = rc
        rc, out = sh(f"git apply {src}/patch.diff", cwd=wt)
        assert rc == 0, "patch does not apply: " + out
        rc, out = sh(f"{PY} -c 'import typelib'", cwd=wt, env=env)
        meta["imports"] = rc == 0
        rc, out = sh(f"{PY} -m pytest -q -p no:cacheprovider 2>&1 | tail -3", cwd=wt, env=env)
        meta["suite"] = [l for l in out.splitlines() if "passed" in l or "failed" in l][-1:] or out[-200:]
        rc, out = sh(f"{PY} {src}/demo.py", cwd=wt, env=env)
        meta["demo_patched_exit"] = rc
        meta["demo_patched_tail"] = out.strip().splitlines()[-1][:300] if out.strip() else ""
        ok = meta["imports"] and meta["demo_unpatched_exit"] == 0 and meta["demo_patched_exit"] != 0 and \
            any("1 failed, 1433 passed" in s for s in meta["suite"])
        meta["confirmed"] = ok
        if ok:
            dst = os.path.join(ROOT, "seeded", name)
            os.makedirs(dst, exist_ok=True)
            for f in ("patch.diff", "demo.py", "notes.md"):
                if os.path.exists(os.path.join(src, f)):
                    shutil.copy(os.path.join(src, f), dst)
            outdir = os.path.join(scratch, "out")
            for p_ in props:
                t0 = time.time()
                env2 = dict(os.environ, VERIF_REPO=wt, VERIF_OUT=outdir)
                rc, out = sh(f"{ROOT}/vcheck run {p_} --tier quick", cwd=ROOT, env=env2)
                lines = out.splitlines()
                viol = [l.strip()[:260] for l in lines if l.strip().startswith("violated")][:4]
                meta["ran"].append({"check": f"vcheck run {p_} --tier quick", "exit": rc, "detected": rc == 1,
                                    "summary": next((l for l in lines if l.startswith("[")), "")[:200],
                                    "violations": viol, "wall_s": round(time.time() - t0, 1)})
            notes = open(os.path.join(src, "notes.md")).read() if os.path.exists(os.path.join(src, "notes.md")) else ""
            meta["needs"] = notes[:1500]
            json.dump(meta, open(os.path.join(dst, "meta.json"), "w"), indent=1)
        print(json.dumps({k: v for k, v in meta.items() if k != "needs"}, indent=1))
    finally:
        sh(f"git -C /repo worktree remove --force {wt}")
        shutil.rmtree(scratch, ignore_errors=True)


if __name__ == "__main__":
    main()
