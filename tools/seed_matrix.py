#!/usr/bin/env python3
"""Generates seeded/MATRIX.md from seeded/*/meta.json."""
import json, os
ROOT = os.path.dirname(os.path.dirname(os.path.abspath(__file__)))
rows = []
for name in sorted(os.listdir(os.path.join(ROOT, "seeded"))):
    mp = os.path.join(ROOT, "seeded", name, "meta.json")
    if not os.path.exists(mp):
        continue
    m = json.load(open(mp))
    notes = (m.get("needs") or "").strip().splitlines()
    title = next((l.strip("# ").strip() for l in notes if l.strip()), "")[:110]
    det = [r["check"].split()[2] for r in m.get("ran", []) if r.get("detected")]
    miss = [r["check"].split()[2] for r in m.get("ran", []) if not r.get("detected")]
    kinds = sorted({v.split(":", 1)[1].strip().split(" ")[0] for r in m.get("ran", []) if r.get("detected") for v in r.get("violations", []) if ":" in v})[:3]
    rows.append((name, m["property"], title, ", ".join(det) or "-", ", ".join(miss) or "-", "; ".join(kinds), m.get("first_run", ""), m.get("strengthening", ""), ("yes" if m.get("confirmed", True) else "no (obsolete on this base)") + " @" + str(m.get("base", "e88df0e"))))
out = ["# Seeded changes and the checks that catch them", "",
       "| change | property | what it is | caught by (quick) | run but not caught | reported as | first run | what was strengthened | still breaks the property on base |", "|---|---|---|---|---|---|---|---|---|"]
for r in rows:
    out.append("| " + " | ".join(x.replace("|", "\\|") for x in r) + " |")
open(os.path.join(ROOT, "seeded", "MATRIX.md"), "w").write("\n".join(out) + "\n")
print("\n".join(out))
