#!/usr/bin/env python3
"""Regenerates /verif/MANIFEST.json from the table below (development helper, not used by the checks)."""
import json, os
ROOT = os.path.dirname(os.path.dirname(os.path.abspath(__file__)))
NOTE = ("trusted base: CrossHair 0.0.110 + z3 5.1.0 models of the Python builtins; typelib compiled from /repo/src with "
        "X.__class__ lowered to type(X) and exception-message f-strings reduced to their literal parts; type-keyed lru caches "
        "kept, value-keyed caches bypassed under tracing; orjson realises its arguments; every counterexample is replayed "
        "natively (pristine /venv python, no CrossHair, no lowering) before VIOLATION is printed; bounds in evidence.coverage.bounds")
CHECKS = {
 "C01": ("E1 value-symbolic: for each T of the catalogue the round trip unmarshal(T, marshal(v)) is executed by CrossHair on a "
         "value assembled from unconstrained symbolic ints/bools/floats, bounded symbolic strs and symbolic container lengths; "
         "'closed' means z3 decided every path of that bounded space. Realised scalars (temporals, Decimal, UUID...) come from "
         "pick-lists selected by a symbolic index.", "4/C01", "CrossHair symbolic execution of the real routines, z3 path exhaustion, native replay"),
 "C03": ("E1 value-symbolic: the input is an arbitrary object - family J (None|bool|int|float|str|list|dict to a depth bound, plus "
         "instances of unrelated classes) and family W (the wire form of a symbolic valid value with one symbolic corruption); the "
         "oracle is an independent structural conformance checker (vlib/shapes.py); leaves are narrow because the routines "
         "stringify / realise them.", "4/C03", "CrossHair symbolic execution of the real unmarshallers on arbitrary inputs, z3 path exhaustion, native replay"),
 "C06": ("E1 value-symbolic: marshal(v, t=T) on symbolic valid v; the output is walked by an independent checker (exact builtin classes, "
         "primitive keys), compared with a second call, checked for container identity against v, v against a rebuilt snapshot; "
         "Literal non-members (symbolic int/str/bool) must raise ValueError; subclass instances from pick-lists.", "4/C06",
         "CrossHair symbolic execution of the real marshallers, z3 path exhaustion, native replay"),
 "C13": ("E1 value-symbolic: unmarshal(T, v) == v with identical classes for symbolic valid v (unbounded ints, symbolic strs incl. the "
         "solver-found 2-character first field), an adversarial-string variant, and idempotence unmarshal(T, unmarshal(T, x)) on arbitrary "
         "x in J and on wire forms.", "4/C13", "CrossHair symbolic execution of the real unmarshallers, z3 path exhaustion, native replay"),
 "C05": ("E1 differential, both sides real: the composite routine vs the composite rebuilt from the results of the member routines "
         "obtained independently per member annotation, with exception parity, on symbolic member inputs; marshal direction on symbolic "
         "valid values; structured sources in five shapes chosen by a symbolic selector; adversarial-naming fixture modules.", "4/C05",
         "CrossHair symbolic differential execution of composite vs member routines, z3 path exhaustion, native replay"),
 "C08": ("E1 per ordered member tuple: unmarshal(Union[...], x) on x in J vs the first success, in declaration order, of the independently "
         "built member routines (any Exception = rejection), None honoured at every position, ValueError iff all reject; same for marshal.",
         "4/C08", "CrossHair symbolic execution of the union routines against a first-acceptor oracle, z3 path exhaustion, native replay"),
 "C18": ("E1 value-symbolic: serdes.iteritems/itervalues on sequences, sets, mappings, one-shot iterators/generators of symbolic length "
         "over unbounded symbolic ints / pairs / triples, symbolic str/bytes, and instances of ten structured flavours, against a "
         "15-line reference; input compared with a rebuilt snapshot.", "4/C18",
         "CrossHair symbolic execution of serdes.iteritems/itervalues, z3 path exhaustion, native replay"),
 "C10": ("E1 on the call shape, one condition per signature: symbolic number of positional arguments, symbolic keyword-presence booleans, "
         "unbounded symbolic payloads; per-parameter unmarshallers replaced by tagging stubs so that what f receives shows which "
         "parameter's routine converted each argument; inspect.Signature.bind is the oracle for acceptance and routing; an end-to-end "
         "variant keeps the real unmarshallers.", "4/C10", "CrossHair symbolic execution of bind()/wrap() over call shapes vs inspect.Signature.bind, z3 path exhaustion, native replay"),
 "C16": ("E3 inductive step: the pre-state is an arbitrary reachable TypeContext content over a closed key family (presence and alias-memo "
         "bits are choice variables the solver enumerates exhaustively; families: top-level class, nested class with a short-name decoy, bare user Generic, classes of an unregistered module; one- and two-layer wrapper keys), one operation, a second lookup, against a reference model whose "
         "unwraps-to / named-by relations are hand-written tables; the representation invariant is assumed before and asserted after, so "
         "histories of any length are covered.", "4/C16", "CrossHair/z3 exhaustive exploration of choice variables (bounded model checking of one inductive step), native replay"),
 "C04": ("E2 kernel-to-z3 for the duration writer: serdes.isoformat's AST is re-translated on every run into guarded text templates; for "
         "each of the 24 template paths z3 decides 'the text denotes exactly the input' and strict ISO 8601 well-formedness over every "
         "timedelta with |total| < 2**31 s (microseconds) / < 2**53 s (whole seconds); z3 5.1 and the z3 4.8.12 binary must agree; the "
         "encoding and the pendulum environment model are validated against the real code on a boundary grid each run. Numeric<->temporal "
         "conversions and text parse-back (C / Rust parsers) are choice-symbolic over boundary pick-lists, cold and cache-warmed.",
         "4/C04", "AST-to-z3 translation of the real isoformat (unsat = holds on the whole domain), solver diff, CrossHair choice exploration, native replay"),
 "C20": ("E3 choice-symbolic: derivations of an annotation-expression grammar are selected by choice variables which the solver enumerates "
         "exhaustively (lazy forking); future.transform runs natively on the rendered string; the oracle is the harness's own AST evaluator "
         "(| read as Union, builtin generics identified with their typing spellings, non-annotation nodes opaque), plus no-BitOr, fixpoint and "
         "unchanged-AST checks.", "4/C20", "CrossHair/z3 exhaustive enumeration of grammar derivations (choice variables), reference-evaluator oracle, native replay"),
 "C19": ("E3 choice-symbolic: the dataclass definition (fields, default kinds, frozen/eq/order/unsafe_hash, five base kinds, user "
         "__getstate__ / __setstate__, user methods incl. zero-argument super()) and decoration histories are choice variables enumerated exhaustively by the solver; classes are synthesised "
         "natively and instances of C and slotted(C) compared for construction, ==, ordering, hash, repr, frozen-ness, copy, pickle, "
         "weakref, __slots__ and __dict__ absence.", "4/C19", "CrossHair/z3 exhaustive enumeration of class definitions and decoration histories (choice variables), native replay"),
 "C09": ("E3 choice-symbolic (weakest form): adjacency bits, edge kinds, root container and naming variants of a class graph over three "
         "synthesised dataclasses (also NamedTuple, Generic, Protocol-rooted, nested, same-named flavours; rebinding of the same names) are choice variables enumerated exhaustively by the solver; graph.itertypes/static_order run natively "
         "and the node sequence is checked against the statement's invariants (termination, no duplicates, root last, members before "
         "containers, every forward reference flagged cyclic and denoting exactly the revisited member, input-form invariance).",
         "4/C09", "CrossHair/z3 exhaustive enumeration of class-graph topologies (choice variables), invariant oracle, native replay"),
 "C15": ("E3 choice-symbolic (weakest form): derivations of the annotation grammar (39 leaves x 16 constructors, depth 1 exhaustively, "
         "depth 2 for unary chains) are choice variables enumerated exhaustively; marshaller/unmarshaller/codec are built natively; "
         "failures are identified by the typelib function that raised; pass-through roots and the members of unparameterised containers are probed with identity sentinels (objects, bytes-like values) and "
         "rebuilt routines compared on a probe vector.", "4/C15", "CrossHair/z3 exhaustive enumeration of annotation derivations (choice variables), native replay"),
 "C12": ("E3 choice-symbolic, run natively (CrossHair removes memoisation under tracing): bounded model checking of the stateful API - "
         "every sequence of length <= 3 over an alphabet of 25 operation instances and every ordered pair over all 70 instances, with equal-but-distinct operands, result / input mutation "
         "and cache clearing is selected by choice variables enumerated exhaustively; each operation's outcome is compared with the same "
         "operation run cold; containers are checked for identity with earlier results / inputs; a failing history is attributed to the "
         "earlier operation whose removal makes it vanish.", "4/C12", "CrossHair/z3 exhaustive enumeration of operation sequences (bounded model checking by choice variables), native replay"),
 "C11": ("E3 differential for wrapper chain x position x reference origin (choice variables enumerated exhaustively; routines for "
         "pos(W(T)) and pos(T) built natively and compared on 10 inputs per base through unmarshaller, marshaller and codec; reference expressions - nested classes, unions, subscripted generics, Literal - as strings from two modules and as the value of string-valued aliases; recursion closed through NewType / alias), plus an E1 "
         "differential of the two root unmarshallers on a symbolic x in J for each wrapper kind.", "4/C11",
         "CrossHair/z3 enumeration of wrapper chains (choice variables) + value-symbolic differential execution, native replay"),
 "C07": ("E1 on the recursive fixtures (symbolic values of depth <= 2: round trip, per-level conformance, plain output), E3+E1 for chains of "
         "depth d = 0..12 chosen by a choice variable with symbolic leaf ints, and E3 for synthesised cyclic topologies (every directed graph "
         "over three dataclasses x 5 edge kinds incl. None | C x root container x root class, enumerated exhaustively): construction terminates, every level "
         "is converted, values and the codec round trip.", "4/C07", "CrossHair symbolic execution + exhaustive enumeration of cycle topologies and depths (choice variables), native replay"),
 "C02": ("E1 for a user-supplied pure-Python tagging encoder/decoder pair (codec(T, encoder, decoder), typelib.encode/decode and the explicit "
         "composition of marshal/unmarshal with the coder must agree on symbolic valid v) and for the identity coder of bytes on symbolic "
         "bytes; E3 for the default (orjson) and stdlib json configurations on values assembled from pick-lists by choice variables "
         "(C encoders cannot be executed symbolically): encoded bytes parse with the standard json module to exactly marshal(v), all three "
         "entry points agree, decode(encode(v)) restores v; for optional / union shapes two values go through the same codec object before the entry points are compared.", "4/C02", "CrossHair symbolic execution of the codec wiring + exhaustive enumeration of pick-list values (choice variables), native replay"),
 "C14": ("E3 for the six text carriers (incl. a memoryview slice of a larger buffer) x catalogue x look-alike texts and the JSON / repr text of pick-list wire values (all choice "
         "variables, enumerated exhaustively; JSON text is realised at the C decoder), load/strload against the standard JSON decoder and "
         "ast.literal_eval over every string to length 3 of a 14-character alphabet; E1 for serdes.decode on symbolic bytes and load on "
         "non-text inputs.", "4/C14", "CrossHair/z3 exhaustive enumeration of texts and carriers (choice variables) + symbolic execution of serdes.decode, native replay"),
}
NA = {
 "C17": "flat catalogue of CPython type objects compared with CPython's own issubclass/typing internals: neither side can be encoded for a solver and there is no value, shape, state or history to make symbolic (DESIGN.md section 7)",
}
def main():
    props = [json.loads(l)["id"] for l in open(os.path.join(ROOT, "properties.jsonl"))]
    checks = []
    for pid in props:
        if pid not in CHECKS:
            continue
        text, ref, tech = CHECKS[pid]
        checks.append({
            "property_id": pid,
            "quick_cmd": f"./vcheck run {pid} --tier quick",
            "thorough_cmd": f"./vcheck run {pid} --tier thorough",
            "evidence_file": f"/verif/evidence/{pid}.json",
            "replay_cmd_template": "./vcheck replay {path}",
            "engine": "vcheck",
            "level_claimed": {"category": "other", "text": "bounded symbolic verification (holds for all inputs within the stated bounds; not a proof). " + text, "design_ref": "DESIGN.md section " + ref},
            "level_note": NOTE,
            "technique": tech,
        })
    na = [{"property_id": p, "reason": NA.get(p, "check not built yet in this revision; see DESIGN.md")} for p in props if p not in CHECKS]
    man = {
        "version": 1,
        "setup_cmd": "./setup.sh",
        "hooks": {"guard": "TYPELIB_VERIF", "enable": "no source hooks: the checks compile /repo/src through an import hook (vlib/lower.py) at run time", "baseline_off_cmd": "cd /repo && /venv/bin/python -m pytest -ra -q -p no:cacheprovider --timeout=900 --continue-on-collection-errors", "source_commits": [], "add_only": True},
        "engines": [{"name": "vcheck", "path": "/verif/vcheck", "serves_properties": sorted(CHECKS), "kind_free_text": "CrossHair 0.0.110 (z3 5.1.0) symbolic execution of the real typelib modules + AST-to-z3 kernel translator + native replay"}],
        "checks": checks,
        "not_applicable": na,
        "notes": "See DESIGN.md. Known findings: known_findings.json. Exit 0 = held on everything explored (inconclusive obligations are listed in the evidence and never count as a pass of that obligation or as a violation).",
    }
    json.dump(man, open(os.path.join(ROOT, "MANIFEST.json"), "w"), indent=1)
if __name__ == "__main__":
    main()
