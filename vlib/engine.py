"""The path-exploration loop (symbolic world only).

Modelled on crosshair.core.explore_paths / analyze_calltree of crosshair-tool 0.0.110, with three
differences: (a) the loop reports whether the search tree was *exhausted* (that is the "Confirmed over
all paths" verdict), (b) a failing path does not stop the search - its inputs are realised on a detached
path, recorded, and exploration continues, so that known findings do not mask other violations, and
(c) per-path statistics are kept for the evidence file.
"""
from __future__ import annotations

import time
import traceback
from time import process_time

from vlib import prelude  # noqa: F401  (installs hook + shims)

from crosshair.condition_parser import condition_parser
from crosshair.core import ExceptionFilter, Patched, deep_realize, gen_args
from crosshair.options import DEFAULT_OPTIONS
from crosshair.statespace import (
    CallAnalysis,
    RootNode,
    StateSpace,
    StateSpaceContext,
    VerificationStatus,
)
from crosshair.tracers import COMPOSITE_TRACER, NoTracing, ResumedTracing
from crosshair.util import (
    CrosshairUnsupported,
    IgnoreAttempt,
    NotDeterministic,
    UnexploredPath,
)

from vlib.cond import Cond, enc_args

import os

NSAMPLES = int(os.environ.get('VERIF_SAMPLES', '3'))
MAX_RECORDED = 6


class _Space(StateSpace):
    """CrossHair's search heuristics fork "in parallel" to try a *prematurely realised* copy of an
    argument whenever earlier paths ended unknown/unsupported; for unbounded ints that branch enumerates
    the integers and starves the symbolic branch.  Either branch alone is a complete exploration, so the
    optional branch is never taken."""

    def fork_parallel(self, false_probability, desc=""):
        return False
  # failing paths recorded per condition (distinct kind@site first)


def explore(cond: Cond, timeout: float, seed: int = 0, classify=lambda f: None) -> dict:
    sig = cond.signature()
    root = RootNode()
    t0_wall = time.time()
    t0_cpu = process_time()
    deadline = t0_cpu + timeout
    per_path = max(5.0, timeout**0.5)
    st = {
        "paths": 0, "confirmed": 0, "ignored": 0, "unknown": 0, "failing": 0,
        "unknown_reasons": {}, "exhausted": False, "failures": [], "errors": [], "known": [], "known_hits": {},
    }
    c0 = dict(prelude.COUNTERS)
    seen_sites = set()
    known_seen = set()
    samples = []
    while st["paths"] < cond.max_paths:
        itr_start = process_time()
        if itr_start > deadline:
            break
        st["paths"] += 1
        space = _Space(
            execution_deadline=itr_start + per_path,
            model_check_timeout=per_path / 2,
            search_root=root,
        )
        status = None
        with condition_parser(DEFAULT_OPTIONS.analysis_kind), Patched(), COMPOSITE_TRACER, NoTracing(), StateSpaceContext(space):
            try:
                pre_args = gen_args(sig)
                ret = None
                with ExceptionFilter() as ef, ResumedTracing():
                    ret = cond.body(**pre_args.arguments)
                if ef.ignore:
                    status = ef.analysis.verification_status
                    st["ignored"] += 1
                elif ef.user_exc is not None:
                    exc, tb = ef.user_exc
                    if isinstance(exc, NotDeterministic):
                        raise exc
                    # an Exception escaped the (supposedly total) body: engine artefact or harness defect
                    with ResumedTracing():
                        space.detach_path(exc)
                        args = deep_realize(dict(pre_args.arguments))
                    st["errors"].append(
                        {"exc": f"{type(exc).__name__}: {exc}"[:300], "args": _safe_enc(args),
                         "tb": "".join(tb.format()[-6:])[-1500:]}
                    )
                    status = VerificationStatus.UNKNOWN
                    st["unknown"] += 1
                    _bump(st["unknown_reasons"], "body_exception:" + type(exc).__name__)
                else:
                    with ResumedTracing():
                        ret = deep_realize(ret)
                    if ret is None:
                        status = VerificationStatus.CONFIRMED
                        st["confirmed"] += 1
                        if len(samples) < NSAMPLES:
                            with ResumedTracing():
                                space.detach_path()
                                samples.append(_safe_enc(deep_realize(dict(pre_args.arguments))))
                    else:
                        with ResumedTracing():
                            space.detach_path()
                            args = deep_realize(dict(pre_args.arguments))
                        st["failing"] += 1
                        f = {"kind": ret[0], "site": ret[1], "detail": str(ret[2])[:300] if len(ret) > 2 else "",
                             "args": _safe_enc(args)}
                        kfid = classify(f)
                        if kfid is not None:
                            st["known_hits"][kfid] = st["known_hits"].get(kfid, 0) + 1
                            if kfid not in known_seen:
                                known_seen.add(kfid)
                                st["known"].append({**f, "kf": kfid})
                        else:
                            key = (ret[0], ret[1])
                            if sum(1 for g in st["failures"] if (g["kind"], g["site"]) == key) < 2:
                                st["failures"].append(f)
                            seen_sites.add(key)
                        # the tree node is closed as *confirmed*: the verdict on this path is taken by
                        # the native replay, not by the search tree
                        status = VerificationStatus.CONFIRMED
            except IgnoreAttempt:
                status = None
                st["ignored"] += 1
            except UnexploredPath as e:
                status = VerificationStatus.UNKNOWN
                st["unknown"] += 1
                _bump(st["unknown_reasons"], type(e).__name__ + (":" + str(e)[:60] if isinstance(e, CrosshairUnsupported) else ""))
            except NotDeterministic:
                status = VerificationStatus.UNKNOWN
                st["unknown"] += 1
                _bump(st["unknown_reasons"], "NotDeterministic")
                _a, exhausted = None, False
                # the tree position is unreliable after nondeterminism: stop this condition
                st["errors"].append({"exc": "NotDeterministic", "tb": traceback.format_exc()[-800:]})
                break
            _a, exhausted = space.bubble_status(CallAnalysis(status))
        if exhausted:
            st["exhausted"] = True
            break
        if len(seen_sites) >= MAX_RECORDED:
            st["stopped_after_failures"] = True
            break
    st["wall_s"] = round(time.time() - t0_wall, 3)
    st["cpu_s"] = round(process_time() - t0_cpu, 3)
    for k in ("oracle_reached", "z3_checks"):
        st[k] = prelude.COUNTERS[k] - c0[k]
    st["z3_secs"] = round(prelude.COUNTERS["z3_secs"] - c0["z3_secs"], 3)
    st["samples"] = samples
    if st["exhausted"] and st["unknown"] == 0:
        st["verdict"] = "closed"  # every path of the bounded space was decided
    elif st["exhausted"]:
        st["verdict"] = "inconclusive:unknown_paths"
    elif st.get("stopped_after_failures"):
        st["verdict"] = "inconclusive:stopped_after_%d_distinct_failures" % len(seen_sites)
    elif st["paths"] >= cond.max_paths:
        st["verdict"] = "inconclusive:max_paths"
    else:
        st["verdict"] = "inconclusive:timeout"
    return st


def _bump(d, k):
    d[k] = d.get(k, 0) + 1


def _safe_enc(args):
    try:
        return enc_args(args)
    except Exception as e:  # noqa: BLE001
        return {"__unencodable__": repr(args)[:300], "why": str(e)}
