"""Solver-based checking machinery for python-typelib (see /verif/DESIGN.md)."""
