"""Cold-state reset: every functools cache found in the loaded typelib modules (recomputed from the
modules on each call, so a cache added to /repo enters the reset automatically)."""
from __future__ import annotations

import functools
import sys

_LRU = type(functools.lru_cache(lambda: None))


def all_caches():
    out = {}
    for name, mod in list(sys.modules.items()):
        if not (name == "typelib" or name.startswith("typelib.")) or mod is None:
            continue
        for attr, obj in list(vars(mod).items()):
            if isinstance(obj, _LRU):
                out[id(obj)] = (f"{name}.{attr}", obj)
    return list(out.values())


def clear_all():
    n = 0
    for _, c in all_caches():
        c.cache_clear()
        n += 1
    return n
