"""Cold-state reset: every functools cache found in the loaded typelib modules (recomputed from the
modules on each call, so a cache added to /repo enters the reset automatically)."""
from __future__ import annotations

import functools
import sys

_LRU = type(functools.lru_cache(lambda: None))


def all_caches():
    out = {}
    for name, mod in list(sys.modules.items()):
        if not (name == "typelib" or name.startswith("typelib.")) or mod is None:
            continue
        for attr, obj in list(vars(mod).items()):
            if isinstance(obj, _LRU):
                out[id(obj)] = (f"{name}.{attr}", obj)
    return list(out.values())


_SNAP = {}  # (module, attribute) -> (container object, its content when first seen)


def _module_containers():
    for name, mod in list(sys.modules.items()):
        if not (name == "typelib" or name.startswith("typelib.")) or mod is None:
            continue
        for attr, obj in list(vars(mod).items()):
            if type(obj) in (dict, list, set) and not attr.startswith("__"):
                yield (name, attr), obj


def restore_module_state():
    """Module-level mutable tables (future._GENERICS, classes._stack, ...) back to the content they had when first
    seen, so that one explored path cannot leak process-global state into the next one (a path that mutates such a
    table still observes its own mutation: the restore runs at the start of a path, never inside it)."""
    for key, obj in _module_containers():
        if key not in _SNAP:
            _SNAP[key] = (obj, type(obj)(obj))
            continue
        ref, content = _SNAP[key]
        if ref is not obj:  # the attribute was rebound: remember the new object
            _SNAP[key] = (obj, type(obj)(obj))
            continue
        if obj != content:
            if type(obj) is list:
                obj[:] = content
            else:
                obj.clear()
                obj.update(content)


def clear_all(restore=True):
    n = 0
    for _, c in all_caches():
        c.cache_clear()
        n += 1
    if restore:
        restore_module_state()
    return n
