"""C18 - generic item and value iteration is lossless and non-destructive (DESIGN 4, C18)."""
from __future__ import annotations

import collections
import types

from vlib.cond import Cond
from vlib.fixtures import iterobjs as O
from vlib.fixtures import models as M
from vlib.prelude import SYMBOLIC, NoTracing, attempt, reached

META = {
    "functions": ["typelib.serdes.iteritems", "typelib.serdes.itervalues", "typelib.serdes._is_iterable_of_pairs",
                  "typelib.serdes.get_items_iter", "typelib.serdes._make_fields_iterator", "typelib.serdes._namedtupleitems"],
    "bounds": {
        "quick": "sequences (list/tuple/deque), sets, dicts (dict/OrderedDict/an OrderedDict reordered in place/a dict subclass overriding items()/MappingProxy/custom Mapping), element kinds incl. None-first and falsy-first, one-shot iterators and "
                 "generators, of symbolic length <= 3 over unbounded symbolic ints, pairs, triples; symbolic str / bytes len <= 3; "
                 "instances of 10 structured flavours with symbolic field values; 20 s per condition",
        "thorough": "length <= 4, str len <= 4; 90 s per condition",
    },
    "assumptions": ["an iterable is 'of pairs' iff its first element is a sized collection of length 2 (the documented peek rule); "
                    "sequences of strings whose first element has length 2 are ambiguous and both readings are accepted"],
}


def _ser():
    from typelib import serdes

    return serdes


def _d(*xs):
    return "" if SYMBOLIC else " | ".join(repr(x)[:200] for x in xs)


def _same_list(a, b):
    if len(a) != len(b):
        return False
    for x, y in zip(a, b):
        if type(x) is not type(y) or x != y:
            return False
    return True


def _elems(kind, a, b, c, n, L):
    """n symbolic in [0, L]; elements by kind: 0 ints, 1 pairs, 2 triples."""
    if kind == 3:  # falsy and None elements, None first
        xs = [None, a, 0, ""][:L]
    elif kind == 4:
        xs = [0, None, b, ()][:L]
    elif kind == 0:
        xs = [a, b, c, a + b][:L]
    elif kind == 1:
        xs = [(a, b), (b, c), (c, a), (a, a)][:L]
    else:
        xs = [(a, b, c), (c, b, a), (b, b, b), (a, c, a)][:L]
    return xs[:n]


CONTAINERS = {
    "list": list, "tuple": tuple, "deque": collections.deque,
    "iter": iter, "gen": O.gen, "listiter_of_tuple": lambda xs: iter(tuple(xs)),
    # an iterable that is neither a collection nor an iterator (only __iter__)
    "iter_only_view": O.IterOnly,
}


def make_seq(cname, kind, L, timeout):
    ctor = CONTAINERS[cname]
    oneshot = cname in ("iter", "gen", "listiter_of_tuple")
    kname = ("ints", "pairs", "triples", "none_first", "falsy_first")[kind]

    def body(a: int, b: int, c: int, n: int):
        S = _ser()
        n = n % (L + 1)
        xs = _elems(kind, a, b, c, n, L)
        exp_items = list(xs) if kind == 1 and n > 0 else list(enumerate(xs))
        exp_vals = list(xs)
        x1, x2 = ctor(list(xs)), ctor(list(xs))
        ok, it = attempt(lambda: list(S.iteritems(x1)))
        ok2, vs = attempt(lambda: list(S.itervalues(x2)))
        reached()
        if not ok:
            return ("iteritems_raised:" + type(it).__name__, f"{cname}:{kname}", _d(xs))
        if not ok2:
            return ("itervalues_raised:" + type(vs).__name__, f"{cname}:{kname}", _d(xs))
        if not _same_list(it, exp_items):
            return ("items_wrong", f"{cname}:{kname}", _d(xs, it, exp_items))
        if not _same_list(vs, exp_vals):
            return ("values_wrong", f"{cname}:{kname}", _d(xs, vs, exp_vals))
        if not oneshot and not (_same_list(list(x1), list(xs)) and _same_list(list(x2), list(xs))):
            return ("input_modified", f"{cname}:{kname}", _d(xs, list(x1)))
        return None

    return Cond(f"seq/{cname}/{kname}", [("a", int), ("b", int), ("c", int), ("n", int)], body, mode="E1", timeout=timeout)


def make_compose(cname, L, timeout):
    """iteritems / itervalues applied to the iterator iteritems returned (the composition its own docstring shows):
    nothing is consumed or lost in between."""
    ctor = CONTAINERS[cname]

    def body(a: int, b: int, c: int, n: int):
        S = _ser()
        n = n % (L + 1)
        xs = _elems(1, a, b, c, n, L)  # pairs
        want = list(xs)
        ok, it = attempt(lambda: list(S.iteritems(S.iteritems(ctor(list(xs))))))
        ok2, vs = attempt(lambda: list(S.itervalues(S.iteritems(ctor(list(xs))))))
        ok3, it3 = attempt(lambda: list(S.iteritems(S.iteritems(dict(xs).items()))))
        reached()
        if not (ok and ok2 and ok3):
            return ("composition_raised", cname, _d(xs, it, vs, it3))
        if n > 0 and not _same_list(it, want):
            return ("items_lost_in_composition", cname, _d(xs, it, want))
        if n > 0 and not _same_list(vs, want):
            return ("values_lost_in_composition", cname, _d(xs, vs, want))
        if not _same_list(it3, list(dict(xs).items())):
            return ("items_lost_in_composition", "dict_items_view", _d(xs, it3))
        return None

    return Cond(f"compose/{cname}", [("a", int), ("b", int), ("c", int), ("n", int)], body, mode="E1", timeout=timeout)


MAPS = {
    "dict": dict, "OrderedDict": collections.OrderedDict, "MappingProxy": lambda d: types.MappingProxyType(dict(d)),
    "MyMapping": O.MyMapping, "OrderedDict_moved": O.moved_ordered, "ReversedDict": O.ReversedDict,
}


def make_map(mname, keykind, L, timeout):
    ctor = MAPS[mname]

    def body(a: int, b: int, c: int, n: int, ks: int):
        S = _ser()
        n = n % (L + 1)
        ks = ks % 2
        if keykind == "str":
            keys = ["a", "b", "c", "d"] if ks == 0 else ["", "1", "ab", "null"]
        else:
            keys = [0, 1, 2, 3] if ks == 0 else [-1, 5, 10 ** 20, 7]
        vals = [(a, b), c, b]
        d = {}
        vals = vals + [a + c]
        for i in range(min(L, 4)):
            if i < n:
                d[keys[i]] = vals[i]
        x = ctor(d)
        exp_items = [(k, v) for k, v in x.items()]  # the mapping's own view (a reordered OrderedDict, an overriding subclass)
        ok, it = attempt(lambda: list(S.iteritems(x)))
        ok2, vs = attempt(lambda: list(S.itervalues(x)))
        reached()
        if not ok:
            return ("iteritems_raised:" + type(it).__name__, mname, _d(d))
        if not ok2:
            return ("itervalues_raised:" + type(vs).__name__, mname, _d(d))
        if not _same_list(it, exp_items):
            return ("items_wrong", mname, _d(d, it))
        if not _same_list(vs, [v for _, v in exp_items]):
            return ("values_wrong", mname, _d(d, vs))
        if not _same_list([(k, v) for k, v in x.items()], exp_items):
            return ("input_modified", mname, _d(d))
        return None

    return Cond(f"map/{mname}/{keykind}", [("a", int), ("b", int), ("c", int), ("n", int), ("ks", int)], body,
                mode="E1", timeout=timeout)


def make_set(L, timeout):
    def body(a: int, b: int, n: int, fz: bool):
        S = _ser()
        n = n % (L + 1)
        a, b = a % 5, b % 5  # hashing realises: small domain
        xs = [a, b, a + 7][:n]
        x = frozenset(xs) if fz else set(xs)
        ok, it = attempt(lambda: list(S.iteritems(x)))
        ok2, vs = attempt(lambda: list(S.itervalues(x)))
        reached()
        if not ok or not ok2:
            return ("raised", "set", _d(xs))
        if sorted(vs) != sorted(x) or len(it) != len(x) or sorted(v for _, v in it) != sorted(x):
            return ("values_wrong", "set", _d(xs, it, vs))
        if [i for i, _ in it] != list(range(len(x))):
            return ("items_wrong", "set", _d(xs, it))
        return None

    return Cond("set/ints", [("a", int), ("b", int), ("n", int), ("fz", bool)], body, mode="E1", timeout=timeout)


def make_text(kind, L, timeout):
    def body_s(s: str):
        S = _ser()
        if len(s) > L:
            return None
        ok, it = attempt(lambda: list(S.iteritems(s)))
        ok2, vs = attempt(lambda: list(S.itervalues(s)))
        reached()
        if not ok or not ok2:
            return ("raised", kind, _d(s))
        if not _same_list(it, list(enumerate(s))) or not _same_list(vs, list(s)):
            return ("items_wrong", kind, _d(s, it, vs))
        return None

    def body_b(s: bytes):
        return body_s(s)

    return Cond(f"text/{kind}", [("s", str if kind == "str" else bytes)], body_s if kind == "str" else body_b, mode="E1", timeout=timeout)


def make_strseq(L, timeout):
    """Sequences of strings: a first element of length 2 is read as a pair (accepted either way)."""

    def body(s1: str, s2: str, n: int):
        S = _ser()
        if len(s1) > 3 or len(s2) > 3:
            return None
        n = n % 3
        xs = [s1, s2][:n]
        ok, it = attempt(lambda: list(S.iteritems(list(xs))))
        ok2, vs = attempt(lambda: list(S.itervalues(list(xs))))
        reached()
        if not ok or not ok2:
            return ("raised", "list:strs", _d(xs))
        if not _same_list(vs, xs):
            return ("values_wrong", "list:strs", _d(xs, vs))
        if _same_list(it, list(enumerate(xs))):
            return None
        if n > 0 and len(s1) == 2 and _same_list(it, xs):
            return None
        return ("items_wrong", "list:strs", _d(xs, it))

    return Cond("seq/list/strs", [("s1", str), ("s2", str), ("n", int)], body, mode="E1", timeout=timeout)


def _structs():
    return {
        "dataclass": (lambda a, b, c: M.Point(a, b), lambda a, b, c: [("x", a), ("y", b)]),
        "dataclass_slots": (lambda a, b, c: M.SPoint(a, "s"), lambda a, b, c: [("x", a), ("name", "s")]),
        "dataclass_private_classvar": (lambda a, b, c: O.WithPrivate(a, b, c), lambda a, b, c: [("a", a), ("b", c)]),
        "namedtuple": (lambda a, b, c: M.NT(a, "t"), lambda a, b, c: [("a", a), ("b", "t")]),
        "namedtuple_pair_first": (lambda a, b, c: O.PairFirst((a, b), c), lambda a, b, c: [("p", (a, b)), ("n", c)]),
        "namedtuple_str2_first": (lambda a, b, c: O.StrFirst("ab", c), lambda a, b, c: [("name", "ab"), ("n", c)]),
        "namedtuple_subclass": (lambda a, b, c: M.SubNT(a, "t"), lambda a, b, c: [("a", a), ("b", "t")]),
        "namedtuple_unannotated": (lambda a, b, c: M.PlainNT(a, b), lambda a, b, c: [("a", a), ("b", b)]),
        "namedtuple_unannotated_pair_first": (lambda a, b, c: M.PlainNT((a, b), c), lambda a, b, c: [("a", (a, b)), ("b", c)]),
        "namedtuple_unannotated_str2_first": (lambda a, b, c: M.PlainNT("xy", c), lambda a, b, c: [("a", "xy"), ("b", c)]),
        "plain_hinted": (lambda a, b, c: O.Hinted(a, b, c), lambda a, b, c: [("a", a), ("b", b)]),
        "slots_only": (lambda a, b, c: O.slots_only(a, b, c), lambda a, b, c: [("a", a), ("b", c)]),
        "vars_only": (lambda a, b, c: O.vars_only(a, b, c), lambda a, b, c: [("a", a), ("b", b)]),
        "plain_init": (lambda a, b, c: M.Plain(a, "q"), lambda a, b, c: [("a", a), ("b", "q")]),
        # subscript access without iteration does not make a structured object a sequence
        "dataclass_with_getitem": (lambda a, b, c: O.Indexable(a, b), lambda a, b, c: [("x", a), ("y", b)]),
        "slots_with_getitem": (lambda a, b, c: O.slots_indexable(a, b), lambda a, b, c: [("a", a), ("b", b)]),
    }


def make_renamed_namedtuple(timeout):
    """A named tuple with an underscore-renamed field: whatever fields are yielded, each is paired with its own value and
    itervalues agrees with iteritems (whether the renamed field counts as public is left open)."""

    def body(a: int, b: int, c: int):
        S = _ser()
        x = O.Row(a, a + 1, a + 2)  # pairwise distinct values: a field paired with a neighbour's value is visible
        ok, it = attempt(lambda: list(S.iteritems(x)))
        ok2, vs = attempt(lambda: list(S.itervalues(x)))
        reached()
        if not (ok and ok2):
            return ("iteration_raised", "namedtuple_renamed_field", _d(x, it, vs))
        names = [k for k, _ in it]
        if not {"id", "name"} <= set(names) or any(n not in x._fields for n in names):
            return ("items_wrong", "namedtuple_renamed_field", _d(x, it))
        for k, v in it:
            if v != getattr(x, k):
                return ("field_paired_with_another_fields_value", "namedtuple_renamed_field", _d(x, it))
        if not _same_list(vs, [v for _, v in it]):
            return ("values_wrong", "namedtuple_renamed_field", _d(x, it, vs))
        return None

    return Cond("struct/namedtuple_renamed_field", [("a", int), ("b", int), ("c", int)], body, mode="E1", timeout=timeout)


def make_struct(name, mk, exp, timeout):
    def body(a: int, b: int, c: int):
        S = _ser()
        x = mk(a, b, c)
        e = exp(a, b, c)
        ok, it = attempt(lambda: list(S.iteritems(x)))
        ok2, vs = attempt(lambda: list(S.itervalues(x)))
        reached()
        if not ok:
            return ("iteritems_raised:" + type(it).__name__, name, _d(x))
        if not ok2:
            return ("itervalues_raised:" + type(vs).__name__, name, _d(x))
        if not _same_list(it, e):
            return ("items_wrong", name, _d(x, it, e))
        if not _same_list(vs, [v for _, v in e]):
            return ("values_wrong", name, _d(x, vs, e))
        e2 = exp(a, b, c)
        ok3, it2 = attempt(lambda: list(S.iteritems(x)))
        if not ok3 or not _same_list(it2, e2):
            return ("input_modified", name, _d(x, it2))
        return None

    return Cond(f"struct/{name}", [("a", int), ("b", int), ("c", int)], body, mode="E1", timeout=timeout)


def make_nontext(timeout):
    """Scalars are not iterable: iteritems/itervalues of an int falls back to vars() and must not invent items."""

    def body(a: int):
        return None

    return None


def conditions(tier, seed):
    to = 20.0 if tier == "quick" else 90.0
    L = 3 if tier == "quick" else 4
    out = []
    for cname in CONTAINERS:
        for kind in (0, 1, 2, 3, 4):
            out.append(make_seq(cname, kind, L, to))
    for cname in ("list", "gen", "iter"):
        out.append(make_compose(cname, L, to))
    for mname in MAPS:
        for kk in ("str", "int"):
            out.append(make_map(mname, kk, L, to))
    out.append(make_set(L, to))
    out.append(make_text("str", L, to))
    out.append(make_text("bytes", L, to))
    out.append(make_strseq(L, to))
    for name, (mk, exp) in _structs().items():
        out.append(make_struct(name, mk, exp, to))
    out.append(make_renamed_namedtuple(to))
    return out
