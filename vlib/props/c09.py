"""C09 - the type graph is a complete dependency order with every cycle cut (DESIGN 4, C09).

E3 only: adjacency bits, edge kinds, root container and naming variants of a synthesised class graph are
choice variables; `graph.itertypes / static_order` run natively on real classes."""
from __future__ import annotations

import dataclasses
import sys
import types
import typing as t

from vlib.cond import Cond
from vlib.prelude import SYMBOLIC, Chooser, NoTracing, attempt, reached

META = {
    "functions": ["typelib.graph.static_order", "typelib.graph.itertypes", "typelib.graph.get_type_graph", "typelib.graph._level",
                  "typelib.graph.TypeNode", "typelib.py.refs.forwardref/evaluate", "typelib.py.inspection.unwrap/args/get_type_hints/qualname"],
    "bounds": {
        "quick": "every directed graph over 3 synthesised dataclasses (9 adjacency bits), two edge kinds per graph drawn from "
                 "{C, Optional[C], list[C], dict[str, C], None | C} (assigned by edge parity), root C0 bare or inside list / Optional / dict[str, .]; "
                 "naming / flavour variants {plain, a class nested in another, two classes of the same name in different modules, NamedTuple classes with string annotations, user Generic classes used bare, a Protocol root} on a fifth / third "
                 "of the graphs; input forms {type, 'string', ForwardRef, NewType, alias, NewType of NewType, NewType of alias, alias of NewType, repeated call} on the 512 single-kind graphs",
        "thorough": "4 classes with out-degree <= 2 (partitioned), all edge-kind pairs",
    },
    "assumptions": ["member relation of the reference model: generic arguments of a subscripted type, field annotations of a class"],
}

KINDS = ("C", "Optional[C]", "list[C]", "dict[str,C]", "None|C")


def _d(*xs):
    return "" if SYMBOLIC else " | ".join(repr(x)[:300] for x in xs)


def wrap_kind(k, c):
    return (c, t.Optional[c], list[c], dict[str, c], None | c)[k]  # the last one is a PEP 604 union written None-first


_COUNTER = [0]
_TV = t.TypeVar("_TV")


def synth(n, adj, ka, kb, naming):
    """Fresh classes C0..C{n-1}; edge i->j (adjacency bit) becomes field f{j} of C_i with kind ka / kb by parity."""
    _COUNTER[0] += 1
    ma = types.ModuleType(f"c09_mod_a_{_COUNTER[0]}")
    mb = types.ModuleType(f"c09_mod_b_{_COUNTER[0]}")
    sys.modules[ma.__name__] = ma
    sys.modules[mb.__name__] = mb
    cls = []
    if naming == 3:
        return _synth_namedtuple(n, adj, ka, kb, ma, mb)
    for i in range(n):
        name, mod, qual = f"C{i}", ma, f"C{i}"
        if naming == 1 and i == n - 1:  # last class nested in C0
            qual = f"C0.C{i}"
        if naming == 2 and i == 1:      # C1 lives in the other module under the root's name
            name, mod, qual = "C0", mb, "C0"
        bases = (t.Generic[_TV],) if naming == 4 else (t.Protocol,) if naming == 5 and i == 0 else ()
        c = types.new_class(name, bases, exec_body=lambda ns, m=mod.__name__, q=qual: ns.update({"__module__": m, "__qualname__": q}))
        cls.append(c)
    for i, c in enumerate(cls):
        if naming == 1 and i == n - 1:
            setattr(cls[0], c.__name__, c)
        else:
            setattr(sys.modules[c.__module__], c.__name__, c)
    members = {}
    for i in range(n):
        ann = {}
        for j in range(n):
            if adj[i * n + j]:
                ann[f"f{j}"] = wrap_kind(ka if (i + j) % 2 == 0 else kb, cls[j])
        cls[i].__annotations__ = ann
        members[cls[i]] = list(ann.items())
    for c in cls:
        dataclasses.dataclass(c)
    return cls, members, (ma, mb)


def _synth_namedtuple(n, adj, ka, kb, ma, mb):
    """The same graph over typing.NamedTuple classes (tuple subclasses: a stdlib base) with string annotations
    resolved in the synthetic module."""
    ma.typing = t
    kinds_src = ("{c}", "typing.Optional[{c}]", "list[{c}]", "dict[str, {c}]", "None | {c}")
    placeholders = [type(f"C{i}", (), {}) for i in range(n)]  # only to compute the reference member relation
    cls = []
    for i in range(n):
        fields = []
        for j in range(n):
            if adj[i * n + j]:
                k = ka if (i + j) % 2 == 0 else kb
                fields.append((f"f{j}", kinds_src[k].format(c=f"C{j}")))
        c = t.NamedTuple(f"C{i}", fields)
        c.__module__ = ma.__name__
        c.__qualname__ = f"C{i}"
        setattr(ma, f"C{i}", c)
        cls.append(c)
    members = {}
    for i, c in enumerate(cls):
        ms = []
        for j in range(n):
            if adj[i * n + j]:
                ms.append((f"f{j}", wrap_kind(ka if (i + j) % 2 == 0 else kb, cls[j])))
        members[c] = ms
    return cls, members, (ma, mb)


def cleanup(mods):
    for m in mods:
        sys.modules.pop(m.__name__, None)


def members_of(T, members):
    """Reference member relation: [(var, member type)]."""
    if T in members:
        return list(members[T])
    args = t.get_args(T)
    return [(None, a) for a in args]


def denotes(node):
    from typelib.py import refs

    if isinstance(node.type, t.ForwardRef):
        try:
            return refs.evaluate(node.type)
        except Exception as e:  # noqa: BLE001
            return ("unresolvable", type(e).__name__)
    return node.type


def is_deferred(node):
    return isinstance(node.type, t.ForwardRef) or node.cyclic


def check_order(root_T, nodes, members, label):
    """The invariants of the statement on one node sequence."""
    if not nodes:
        return ("empty_order", label, "")
    if nodes[-1].type is not root_T and nodes[-1].type != root_T:
        return ("root_not_last", label, _d(root_T, nodes[-1]))
    for i, a in enumerate(nodes):
        for b in nodes[i + 1:]:
            if a == b:
                return ("duplicate_node", label, _d(a))
    regular = {}
    for i, nd in enumerate(nodes):
        if isinstance(nd.type, t.ForwardRef) and not nd.cyclic:
            return ("forward_reference_not_flagged_cyclic", label, _d(nd))
        if not is_deferred(nd):
            regular.setdefault(_key(nd.type), i)
    for i, nd in enumerate(nodes):
        if is_deferred(nd):
            den = denotes(nd)
            # every node flagged cyclic is a revisit: the type it stands for is converted elsewhere in the order
            # and it denotes exactly a direct member (same field) of a later node, parameters included
            owners = [(var, M) for later in nodes[i + 1:] if not is_deferred(later)
                      for var, M in members_of(later.type, members) if var == nd.var or var is None]  # generic arguments carry no field name of their own
            if not any(_same_type(den, M) for _, M in owners):
                return ("deferred_denotes_wrong_type:" + _ref_class(nd), label, _d(nd, den, owners))
            if _key(den) not in regular:
                return ("cyclic_flag_without_revisit", label, _d(nd, den))
            continue
        for var, M in members_of(nd.type, members):
            if M is type(None) or M in (str, int):
                ok = any(not is_deferred(p) and p.type is M for p in nodes[:i])
            else:
                ok = any((not is_deferred(p) and _same_type(p.type, M)) or (is_deferred(p) and p.var == var and _same_type(denotes(p), M))
                         for p in nodes[:i])
                if not ok:
                    bad = [p for p in nodes[:i] if is_deferred(p) and p.var == var]
                    if bad:
                        return ("deferred_denotes_wrong_type:" + _ref_class(bad[0]), label, _d(nd, (var, M), bad))
            if not ok:
                return ("member_not_before_container", label, _d(nd, (var, M), nodes))
    return None


_GENERIC_NAMES = {"Optional", "Union", "list", "dict", "tuple", "set", "frozenset", "List", "Dict", "Tuple", "Set"}


def _ref_class(node):
    """The known defect (KF15) has a precise signature: the forward reference names a bare generic."""
    if isinstance(node.type, t.ForwardRef) and node.type.__forward_arg__ in _GENERIC_NAMES:
        return "subscripted_member"
    return "class_member"


def _looks_bare_generic(den):
    return den in (list, dict, t.Optional, t.Union, tuple, set) or (isinstance(den, tuple) and den and den[0] == "unresolvable")


def _origin_matches(den, M):
    o = t.get_origin(M)
    return o is not None and (den is o or den is t.Optional or den is t.Union or (isinstance(den, tuple)))


def _key(T):
    try:
        hash(T)
        return T
    except TypeError:
        return repr(T)


def _same_type(a, b):
    if isinstance(a, tuple):
        return False
    if a is b:
        return True
    if a == b and t.get_origin(a) in (t.Union, types.UnionType) and t.get_origin(b) in (t.Union, types.UnionType):
        return True  # Optional[C] and None | C are one type (Union equality ignores the order of members)
    return a == b and t.get_args(a) == t.get_args(b)


def run_graph(n, adj, ka, kb, container, naming):
    from typelib import graph

    from vlib import caches

    cls, members, mods = synth(n, adj, ka, kb, naming)
    try:
        caches.clear_all()
        root = cls[0]
        root_T = (root, list[root], t.Optional[root], dict[str, root])[container]
        label = f"{('bare', 'list', 'Optional', 'dict')[container]}/{('plain', 'nested', 'same_name', 'namedtuple', 'generic', 'protocol_root')[naming]}"
        try:
            nodes = [*graph.itertypes(root_T)]
        except RecursionError:
            return ("does_not_terminate", label, _d(adj))
        except Exception as e:  # noqa: BLE001
            return ("graph_raised:" + type(e).__name__, label, _d(adj, ka, kb, e))
        r = check_order(root_T, nodes, members, label)
        if r is not None:
            return r
        # memoised entry point gives the same sequence, twice
        a = graph.static_order(root_T)
        b = graph.static_order(root_T)
        sig = [(x.type, x.var, x.cyclic) for x in nodes]
        if [(x.type, x.var, x.cyclic) for x in a] != sig or [(x.type, x.var, x.cyclic) for x in b] != sig:
            return ("static_order_differs_from_itertypes", label, _d(adj))
        return None
    finally:
        cleanup(mods)


def make_topo(n, container, ka, timeout, quick=True, seed=0):
    nb = n * n

    def body(**p):
        ch = Chooser([p[f"c{i}"] for i in range(4)])
        with NoTracing():
            bits = ch.pick(2 ** nb)
            kb = (ka + ch.pick(2) * (1 + seed % 4)) % 5 if quick else ch.pick(5)
            naming = 0
            adj = [bool((bits >> i) & 1) for i in range(nb)]
            if bits % (5 if quick else 3) == 0:
                naming = 1 + ch.pick(5)
            reached()
            return run_graph(n, adj, ka, kb, container, naming)

    cn = ("bare", "list", "Optional", "dict")[container]
    return Cond(f"topo/n{n}/{cn}/{KINDS[ka]}", [(f"c{i}", int) for i in range(4)], body, mode="E3", timeout=timeout)


def make_forms(n, ka, timeout):
    """String / ForwardRef / NewType / alias / repeated inputs give the same sequence up to the root label."""
    nb = n * n

    def body(**p):
        from typelib import graph
        from typelib.py import refs

        from vlib import caches

        ch = Chooser([p[f"c{i}"] for i in range(3)])
        with NoTracing():
            bits = ch.pick(2 ** nb)
            adj = [bool((bits >> i) & 1) for i in range(nb)]
            cls, members, mods = synth(n, adj, ka, ka, 0)
            try:
                caches.clear_all()
                root = cls[0]
                reached()
                try:
                    base = [(x.type, x.var, x.cyclic) for x in graph.static_order(root)]
                except Exception as e:  # noqa: BLE001
                    return ("graph_raised:" + type(e).__name__, "forms", _d(adj, e))
                N = t.NewType("N", root)
                A = t.TypeAliasType("A", root)
                N2 = t.NewType("N2", N)
                NA = t.NewType("NA", A)
                AN = t.TypeAliasType("AN", N)
                forms = {
                    "newtype_of_newtype": N2, "newtype_of_alias": NA, "alias_of_newtype": AN,
                    "string": f"{root.__module__}.{root.__qualname__}",
                    "forwardref": refs.forwardref(root.__qualname__, module=root.__module__),
                    "newtype": N, "alias": A, "repeat": root,
                }
                for fname, f in forms.items():
                    try:
                        got = [(x.type, x.var, x.cyclic) for x in graph.static_order(f)]
                    except Exception as e:  # noqa: BLE001
                        return ("input_form_raised:" + type(e).__name__, "forms:" + fname, _d(adj, e))
                    if got[:-1] != base[:-1]:
                        cyc = any(c for _, _, c in base)  # the graph has a cycle cut (KF16 concerns wrapped *cyclic* roots)
                        return ("input_form_changes_order:" + ("cyclic_graph" if cyc else "acyclic_graph"), "forms:" + fname,
                                _d(adj, got, base))
                    last = got[-1]
                    if fname in ("string", "forwardref", "repeat") and last != base[-1]:
                        return ("input_form_changes_root", "forms:" + fname, _d(last, base[-1]))
            finally:
                cleanup(mods)
        return None

    return Cond(f"forms/n{n}/{KINDS[ka]}", [(f"c{i}", int) for i in range(3)], body, mode="E3", timeout=timeout)


def make_rebind(ka, timeout):
    """The same qualified names rebound to new class objects (module reload / notebook re-run): the graph of the
    new classes must denote the *new* classes at every deferred node."""

    def body(**p):
        from typelib import graph

        ch = Chooser([p[f"c{i}"] for i in range(3)])
        with NoTracing():
            bits = ch.pick(512)
            adj = [bool((bits >> i) & 1) for i in range(9)]
            reached()
            saved = _COUNTER[0]
            out = None
            for round_ in (0, 1):
                _COUNTER[0] = 10 ** 6 + ka  # same module name in both rounds
                cls, members, mods = synth(3, adj, ka, ka, 0)
                try:
                    try:
                        nodes = [*graph.itertypes(cls[0])]
                    except Exception as e:  # noqa: BLE001
                        out = ("graph_raised:" + type(e).__name__, "rebind", _d(adj, e))
                        break
                    r = check_order(cls[0], nodes, members, "rebind/round%d" % round_)
                    if r is not None:
                        out = (r[0], "rebind:round%d" % round_, r[2])
                        break
                finally:
                    cleanup(mods)
            _COUNTER[0] = saved
            return out

    return Cond(f"rebind/{KINDS[ka]}", [(f"c{i}", int) for i in range(3)], body, mode="E3", timeout=timeout)


def make_catalogue(timeout):
    """The catalogue annotations of U through the same invariants (member relation from typing.get_args / dataclass fields)."""
    from vlib import universe

    cat = [s for s in universe.catalogue("quick")]

    def body(c0: int):
        from typelib import graph

        from vlib import caches

        ch = Chooser((c0,))
        with NoTracing():
            s = cat[ch.pick(len(cat))]
            caches.clear_all()
            reached()
            try:
                nodes = [*graph.itertypes(s.T)]
            except Exception as e:  # noqa: BLE001
                return ("graph_raised:" + type(e).__name__, "catalogue", _d(s.name, e))
            if not nodes:
                return None
            for i, a in enumerate(nodes):
                for b in nodes[i + 1:]:
                    if a == b:
                        return ("duplicate_node", "catalogue", _d(s.name, a))
            if nodes[-1].type != s.T:
                return ("root_not_last", "catalogue", _d(s.name, nodes[-1]))
            for nd in nodes:
                if isinstance(nd.type, t.ForwardRef) and not nd.cyclic:
                    return ("forward_reference_not_flagged_cyclic", "catalogue", _d(s.name, nd))
        return None

    return Cond("catalogue/invariants", [("c0", int)], body, mode="E3", timeout=timeout)


def make_repeats(timeout):
    """A subscripted annotation reached twice in one graph (with any arity, including the empty tuple): full invariants,
    in particular every deferred node denotes exactly the annotation it stands for."""
    gens = [tuple[()], tuple[int], tuple[int, ...], list[int], dict[str, int], t.Optional[int], int | None, frozenset[str],
            t.Tuple[()], t.List[int], tuple[tuple[()], int], list[tuple[()]]]

    def body(c0: int, c1: int, c2: int):
        from typelib import graph

        from vlib import caches

        ch = Chooser((c0, c1, c2))
        with NoTracing():
            G = ch.choose(gens)
            form = ch.pick(5)
            caches.clear_all()
            if form == 0:
                T, members = dict[G, G], {}
            elif form == 1:
                T, members = tuple[G, list[G]], {}
            elif form == 2:
                cls = dataclasses.make_dataclass("Two", [("a", G), ("b", G)])
                T, members = cls, {cls: [("a", G), ("b", G)]}
            elif form == 3:
                inner = dataclasses.make_dataclass("Inner", [("a", G)])
                cls = dataclasses.make_dataclass("Outer", [("a", G), ("i", inner)])
                T, members = cls, {cls: [("a", G), ("i", inner)], inner: [("a", G)]}
            else:  # fields on both sides of a dataclasses.KW_ONLY sentinel (own or inherited)
                tag = dataclasses.make_dataclass("Tag", [("n", int)])
                base = dataclasses.make_dataclass("KBase", [("a", G), ("_", dataclasses.KW_ONLY), ("t", list[tag])])
                cls = dataclasses.make_dataclass("KChild", [("extra", tag, dataclasses.field(kw_only=True, default=None))], bases=(base,)) if ch.flag() else base
                mem = [("a", G), ("t", list[tag])] + ([("extra", tag)] if cls is not base else [])
                T, members = cls, {cls: mem, tag: [("n", int)]}
            for c_ in members:  # classes made on the fly must be importable by name for a reference to them to resolve
                if isinstance(c_, type):
                    setattr(sys.modules[__name__], c_.__name__, c_)
            reached()
            try:
                hash(G)
            except TypeError:
                return None
            try:
                nodes = [*graph.itertypes(T)]
            except Exception as e:  # noqa: BLE001
                return ("graph_raised:" + type(e).__name__, "repeats", _d(T, e))
            r = check_order(T, nodes, members, "repeats")
            if r is not None:
                return (r[0], "repeats", _d(T, r[2]))
        return None

    return Cond("repeats/subscripted_twice", [("c0", int), ("c1", int), ("c2", int)], body, mode="E3", timeout=timeout)


def make_late(timeout):
    """A graph asked for while a referenced class is not defined yet must not freeze that answer: once the module is
    complete, the graph (through another root) has a node for the class and everything below it."""

    def body(c0: int):
        from typelib import graph

        from vlib import caches

        ch = Chooser((c0,))
        with NoTracing():
            caches.clear_all()
            _COUNTER[0] += 1
            mod = types.ModuleType(f"c09_late_{_COUNTER[0]}")
            sys.modules[mod.__name__] = mod
            try:
                src = ("import dataclasses\n@dataclasses.dataclass\nclass Order:\n    customer: 'Customer'\n    n: 'int'\n")
                exec(src, mod.__dict__)  # noqa: S102
                early = ch.pick(3)
                if early == 1:
                    attempt(lambda: [*graph.itertypes(mod.Order)])          # registration right after the class body
                elif early == 2:
                    attempt(lambda: graph.static_order(mod.Order))
                exec("@dataclasses.dataclass\nclass Customer:\n    name: str\n", mod.__dict__)  # noqa: S102
                reached()
                for root in (list[mod.Order], mod.Order):
                    try:
                        nodes = [*graph.itertypes(root)]
                    except Exception as e:  # noqa: BLE001
                        return ("graph_raised:" + type(e).__name__, "late_definition", _d(early, root, e))
                    if not any(nd.type is mod.Customer for nd in nodes):
                        return ("member_missing_after_late_definition", "late_definition", _d(early, root, nodes))
                    if any(isinstance(nd.type, t.ForwardRef) and not nd.cyclic for nd in nodes):
                        return ("forward_reference_not_flagged_cyclic", "late_definition", _d(early, root, nodes))
            finally:
                sys.modules.pop(mod.__name__, None)
        return None

    return Cond("late/definition_after_first_walk", [("c0", int)], body, mode="E3", timeout=timeout)


def conditions(tier, seed):
    to = 90.0 if tier == "quick" else 300.0
    out = []
    for container in range(4):
        for ka in range(5):
            out.append(make_topo(3, container, ka, to, tier == "quick", seed))
    out += [make_forms(3, ka, to) for ka in range(5)]
    out += [make_rebind(ka, to) for ka in (0, 1, 2)]
    out.append(make_catalogue(to))
    out.append(make_repeats(to))
    out.append(make_late(to))
    return out
