"""C08 - union members are tried in declared order, None always honoured (DESIGN 4, C08)."""
from __future__ import annotations

import datetime
import decimal
import itertools
import typing as t
import uuid

from vlib.cond import Cond
from vlib.fixtures import models as M
from vlib.prelude import SYMBOLIC, Chooser, NoTracing, attempt, reached
from vlib.props.c05 import deep_same
from vlib.shapes import (DateS, DateTimeS, DecimalS, DictOf, EnumS, Float, Int, JVal, ListOf, Lit, NoneS, Src, Str, UUIDS_,
                         jparams)
from vlib.universe import LineS, PointS

META = {
    "functions": ["typelib.unmarshals.routines.UnionUnmarshaller.__init__/__call__", "typelib.marshals.routines.UnionMarshaller.__init__/__call__",
                  "typelib.py.inspection.isoptionaltype/isuniontype/args", "member routines of the pool"],
    "bounds": {
        "quick": "pool of 12 member types (int,str,float,Decimal,date,datetime,UUID,list[int],dict[str,int],Point,Color,Literal['x','y']); "
                 "a seed-rotated 36 of the 156 ordered pairs (plus fixed ones: classic traps, a structured member before its field types, a structure before the structure it holds), None at every position of 6 triples, 3 spellings (Union/Optional/X|Y) on 4 pairs; "
                 "x in J depth 1 (narrow leaves; strings incl. ISO date, UUID text, '1.5', 'abc') + instances of the pool classes; "
                 "marshal on instances of the pool; 20 s per condition",
        "thorough": "all 156 ordered pairs, 220 ordered triples (seed-rotated), None at every position; 90 s per condition",
    },
    "assumptions": ["every typelib cache is cleared before each union routine is built (caches keyed by Union equality, which ignores member order, are C12's subject)",
                    "any Exception of an independently built member routine counts as rejection"],
}

STRS = ["", "a", "1", "null", "[1]", '{"a": 1}', "1.5", "2020-01-01", "2020-01-01T00:00:00+00:00",
        "12345678-1234-5678-1234-567812345678", "abc", "x", "None"]
INST = [M.Point(1, 2), M.Color.RED, decimal.Decimal("1.5"), datetime.date(2020, 1, 1),
        datetime.datetime(2020, 1, 1, tzinfo=datetime.timezone.utc), uuid.UUID(int=5), b"1", (1, 2)]


class _View:
    """Stands for a fresh memoryview over `data` (a view is stateful: it can be released; every call gets its own)."""

    def __init__(self, data):
        self.data = data

    def __repr__(self):
        return f"memoryview({self.data!r})"


INST += [_View(b"twelve"), _View(b"12"), _View(b"1.5"), {"x": "1", "y": "2"}, '{"x": "3", "y": 4}',
         {"a": {"x": "1", "y": 2}, "b": {"x": 3, "y": "4"}, "label": 5}]


def _mat(x):
    return memoryview(x.data) if type(x) is _View else x


def pool():
    return [Int(), Str(), Float(), DecimalS(), DateS(), DateTimeS(), UUIDS_(), ListOf(Int()), DictOf(Str(), Int()), PointS(),
            EnumS(M.Color), Lit("x", "y"), LineS()]


def _fresh(fn, T):
    from vlib import caches

    with NoTracing():
        caches.clear_all()
        return fn(T)


def _d(*xs):
    return "" if SYMBOLIC else " | ".join(repr(x)[:200] for x in xs)


def _T(members, spelling):
    ts = tuple(m.T for m in members)
    if spelling == "pipe":
        T = ts[0]
        for x in ts[1:]:
            T = T | x
        return T
    if spelling == "Optional":  # Optional[Union[...]] puts None last
        rest = tuple(x for x in ts if x is not type(None))
        return t.Optional[t.Union[rest]] if len(rest) > 1 else t.Optional[rest[0]]
    return t.Union[ts]


def make_u(members, spelling, depth, timeout):
    from typelib import unmarshals

    name = spelling + "[" + ",".join(m.name for m in members) + "]"
    T = _T(members, spelling)
    declared = t.get_args(T)
    order = [next(m for m in members if m.T is a or m.T == a) for a in declared]
    try:
        UT = _fresh(unmarshals.unmarshaller, T)
        UM = [_fresh(unmarshals.unmarshaller, m.T) for m in order]
        err = None
    except Exception as e:  # noqa: BLE001
        UT, UM, err = None, None, type(e).__name__
    has_none = any(isinstance(m, NoneS) for m in order)
    J = JVal(depth, strs=STRS, extra=INST, maxlen=1 if depth == 1 else 2)

    def body(**p):
        if err is not None:
            reached()
            return ("build_failed", name, err)
        x = J.build(Src(p))
        okc, rc = attempt(UT, _mat(x))
        reached()
        if has_none and x is None:
            if not okc or rc is not None:
                return ("none_not_honoured", name, _d(x, okc, rc))
            return None
        first = None
        for um in UM:
            ok, r = attempt(um, _mat(x))
            if ok:
                first = (r,)
                break
        if first is None:
            if okc:
                return ("accepted_though_all_members_reject", name, _d(x, rc))
            if not isinstance(rc, ValueError):
                return ("member_error_escapes:" + type(rc).__name__, name, _d(x, rc))
            return None
        if not okc:
            return ("rejected_though_member_accepts", name, _d(x, first[0], type(rc).__name__))
        if not deep_same(rc, first[0]):
            return ("not_first_acceptor", name, _d(x, rc, first[0]))
        return None

    return Cond(f"u/{name}", jparams(depth, 1 if depth == 1 else 2), body, mode="E1", timeout=timeout)


def make_m(members, spelling, timeout):
    """marshal: first acceptor in declared order; None passes through optional unions."""
    from typelib import marshals

    name = spelling + "[" + ",".join(m.name for m in members) + "]"
    T = _T(members, spelling)
    declared = t.get_args(T)
    order = [next(m for m in members if m.T is a or m.T == a) for a in declared]
    try:
        MT = _fresh(marshals.marshaller, T)
        MM = [_fresh(marshals.marshaller, m.T) for m in order]
        err = None
    except Exception as e:  # noqa: BLE001
        MT, MM, err = None, None, type(e).__name__
    has_none = any(isinstance(m, NoneS) for m in order)
    nm = len(order)

    def body(**p):
        if err is not None:
            reached()
            return ("build_failed", name, err)
        src = Src(p, narrow=True)  # str members stringify the value: digit counts would be enumerated
        vals = [m.build(src) for m in order]
        k = src.sel(nm)
        v = vals[0]
        for i in range(1, nm):
            if k == i:
                v = vals[i]
        okc, mc = attempt(MT, v)
        reached()
        if has_none and v is None:
            return None if okc and mc is None else ("none_not_passed_through", name, _d(v, okc, mc))
        first = None
        for m_, mm in zip(order, MM):
            if isinstance(m_, NoneS):
                continue  # the None member accepts None only (its stand-alone routine is a pass-through for anything)
            ok, r = attempt(mm, v)
            if ok:
                first = (r,)
                break
        if first is None:
            if okc:
                return ("accepted_though_all_members_reject", name, _d(v, mc))
            return None if isinstance(mc, ValueError) else ("member_error_escapes:" + type(mc).__name__, name, _d(v, mc))
        if not okc:
            return ("rejected_though_member_accepts", name, _d(v, first[0], type(mc).__name__))
        if not deep_same(mc, first[0]):
            return ("not_first_acceptor", name, _d(v, mc, first[0]))
        return None

    from vlib.shapes import params_for

    class _All:
        def build(self, src):
            for m in order:
                m.build(src)
            src.sel(nm)

    return Cond(f"m/{name}", params_for(_All()), body, mode="E1+picks", timeout=timeout)


def make_m_seq(timeout):
    """marshal is the first acceptor on *every* call of a long-lived union routine, whatever it was given before."""
    import typing as t

    from typelib import marshals

    unions = [(t.Union[int, str], (int, str)), (t.Union[float, str], (float, str)), (t.Union[decimal.Decimal, str], (decimal.Decimal, str)),
              (t.Optional[int], (int,)), (t.Union[int, float, str], (int, float, str))]
    values = ["abc", "12", 7, 2.5, True, decimal.Decimal("1.5"), None, "1.5"]

    def body(c0: int, c1: int, c2: int, c3: int):
        from vlib import caches

        ch = Chooser((c0, c1, c2, c3))
        with NoTracing():
            U, mem = ch.choose(unions)
            v1, v2 = ch.choose(values), ch.choose(values)
            caches.clear_all()
            MU = marshals.marshaller(U)
            attempt(MU, v1)
            if ch.flag():
                attempt(MU, v1)
            got = attempt(MU, v2)
            reached()
            if v2 is None and type(None) in t.get_args(U):
                return None if got == (True, None) else ("none_not_passed_through_after_history", str(U), _d(v1, v2, got))
            first = None
            for m in mem:
                r = attempt(marshals.marshaller(m), v2)
                if r[0]:
                    first = r
                    break
            if first is None:
                return None if not got[0] else ("accepted_though_all_members_reject", str(U), _d(v1, v2, got))
            if not got[0] or type(got[1]) is not type(first[1]) or got[1] != first[1]:
                return ("not_first_acceptor_after_history", str(U), _d(v1, v2, got, first))
        return None

    return Cond("m_seq/two_calls", [(f"c{i}", int) for i in range(4)], body, mode="E3", timeout=timeout)


def tuples(tier, seed):
    P = pool()
    n = len(P)
    pairs = [(i, j) for i in range(n) for j in range(n) if i != j]
    out = []
    if tier == "quick":
        k = (seed * 36) % len(pairs)
        sel = (pairs + pairs)[k:k + 36]
        # the classic traps are always in
        # ... and a structured member whose field types are themselves members declared after it
        for must in ((0, 1), (1, 0), (3, 1), (1, 3), (4, 5), (5, 4), (2, 0), (0, 2), (9, 0), (0, 9), (9, 1), (12, 9), (9, 12)):
            if must not in sel:
                sel.append(must)
    else:
        sel = pairs
    for i, j in sel:
        P = pool()
        out.append(((P[i], P[j]), "Union"))
    # None at every position
    trip = [(0, 1), (1, 0), (3, 1), (4, 5), (7, 8), (9, 10)] if tier == "quick" else [(i, j) for i, j in pairs[:: 3]]
    for i, j in trip:
        for pos in range(3):
            P = pool()
            ms = [P[i], P[j]]
            ms.insert(pos, NoneS())
            out.append((tuple(ms), "Union"))
    for i, j in [(0, 1), (1, 0), (4, 1), (9, 8)]:
        for sp in ("pipe", "Optional"):
            P = pool()
            ms = (P[i], P[j]) if sp == "pipe" else (P[i], P[j], NoneS())
            out.append((ms, sp))
        P = pool()
        out.append(((P[i], NoneS()), "pipe"))
    if tier != "quick":
        trips = [(a, b, c) for a, b, c in itertools.permutations(range(n), 3)]
        k = (seed * 220) % len(trips)
        for a, b, c in (trips + trips)[k:k + 220]:
            P = pool()
            out.append(((P[a], P[b], P[c]), "Union"))
    return out


def conditions(tier, seed):
    to = 20.0 if tier == "quick" else 90.0
    out, seen = [], set()
    for ms, sp in tuples(tier, seed):
        for c in (make_u(ms, sp, 1, to), make_m(tuple(ms), sp, to)):
            if c.name not in seen:
                seen.add(c.name)
                out.append(c)
    # unions written on the spot (X | Y objects are not kept alive by the caller): shared with C12
    from vlib.props import c12

    out.append(c12.make_fresh(2 * to))
    out.append(make_m_seq(2 * to))
    return out
