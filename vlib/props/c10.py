"""C10 - bound callables get every argument converted per its own parameter (DESIGN 4, C10)."""
from __future__ import annotations

import inspect
import itertools

from vlib.cond import Cond
from vlib.prelude import SYMBOLIC, NoTracing, attempt, reached

META = {
    "functions": ["typelib.binding.bind", "typelib.binding.wrap", "typelib.binding._get_binding", "typelib.binding._BINDING_CLS_MATRIX",
                  "typelib.binding.*Binding.__call__ (17 classes)", "typelib.binding.BoundRoutine.__call__"],
    "bounds": {
        "quick": "all 32 kind-presence rows, one parameter per kind (two positional-or-keyword in the 'wide' variant of 8 rows); call shape "
                 "symbolic: 0..(positional params + 2) positional arguments, each named parameter and 2 extra names passed by keyword "
                 "or not (presence booleans), unbounded symbolic int payloads; per-parameter unmarshallers replaced by tagging stubs "
                 "(routing), plus one end-to-end variant per row with the real unmarshallers for int/str/float/bool/list[int] annotations "
                 "and an unannotated parameter, and one with subscripted container annotations given containers of unconverted members; functions, methods, callable instances, classes on 6 rows; decorated bound methods and a subclass (own __init__) of an already wrapped class on 3 rows end-to-end; wrap metadata; 20 s per condition",
        "thorough": "the wide variant on all 32 rows; defaults on every row; 90 s per condition",
    },
    "assumptions": ["inspect.Signature.bind is the oracle for acceptance and for the parameter each argument binds to"],
}

KINDS = ("po", "pk", "va", "ko", "vk")


def _d(*xs):
    return "" if SYMBOLIC else " | ".join(repr(x)[:200] for x in xs)


class Stub:
    """Stands in for a parameter's unmarshaller: tags the value with the parameter it was routed to."""

    def __init__(self, tag):
        self.tag = tag

    def __call__(self, v):
        return (self.tag, v)


def make_fn(row, wide=False, defaults=False, annotate=None, flavour="function"):
    """row: 5 booleans (po, pk, va, ko, vk).  Returns (callable, signature-of-the-user-visible-call, param names)."""
    po, pk, va, ko, vk = row
    ann = annotate or {}

    def a(name):
        return f": {ann[name]}" if name in ann else ""

    parts = []
    if po:
        parts += [f"a{a('a')}" + (" = -7" if defaults else ""), "/"]
    if pk:
        parts += [f"b{a('b')}" + (" = -8" if defaults else "")]
        if wide:
            parts += [f"b2{a('b2')} = -9"]
    if va:
        parts += [f"*args{a('args')}"]
    elif ko:
        parts += ["*"]
    if ko:
        parts += [f"c{a('c')}" + (" = -10" if defaults else "")]
    if vk:
        parts += [f"**kw{a('kw')}"]
    names = [n for n, on in (("a", po), ("b", pk), ("b2", pk and wide), ("args", va), ("c", ko), ("kw", vk)) if on]
    ret = "(" + "".join(f"('{n}', {n}), " for n in names) + ")"
    ns: dict = {}
    if flavour == "function":
        src = f"def f({', '.join(parts)}):\n    'doc of f'\n    return {ret}\n"
        exec(src, ns)  # noqa: S102
        fn = ns["f"]
        return fn, inspect.signature(fn), names
    if flavour == "method":
        src = f"class K:\n    def f(self, {', '.join(parts)}):\n        return {ret}\n"
        exec(src, ns)  # noqa: S102
        fn = ns["K"]().f
        return fn, inspect.signature(fn), names
    if flavour == "decorated_method":  # a bound method whose function carries a functools.wraps decorator
        src = ("import functools\ndef deco(fn):\n    @functools.wraps(fn)\n    def w(*a, **k):\n        return fn(*a, **k)\n    return w\n"
               f"class K:\n    @deco\n    def f(self, {', '.join(parts)}):\n        return {ret}\n")
        exec(src, ns)  # noqa: S102
        fn = ns["K"]().f
        return fn, inspect.signature(fn), names
    if flavour == "subclass":  # a class whose base class was wrapped before; it overrides __init__
        src = ("class Base:\n    def __init__(self, q: int = 0):\n        self.q = q\n"
               f"class K(Base):\n    def __init__(self, {', '.join(parts)}):\n        self.got = {ret}\n")
        exec(src, ns)  # noqa: S102
        from typelib import binding as _b

        _b.wrap(ns["Base"])
        return ns["K"], inspect.signature(ns["K"]), names
    if flavour == "callable":
        src = f"class K:\n    def __call__(self, {', '.join(parts)}):\n        return {ret}\n"
        exec(src, ns)  # noqa: S102
        fn = ns["K"]()
        return fn, inspect.signature(fn), names
    src = f"class K:\n    def __init__(self, {', '.join(parts)}):\n        self.got = {ret}\n"
    exec(src, ns)  # noqa: S102
    return ns["K"], inspect.signature(ns["K"]), names


def _install_stubs(b, sig):
    for i, (name, p) in enumerate(sig.parameters.items()):
        st = Stub(name)
        b.binding[name] = b.binding[i] = st
        if p.kind is p.VAR_POSITIONAL:
            b.varpos = st
        if p.kind is p.VAR_KEYWORD:
            b.varkwd = st


def _expected(sig, pos, kw, conv):
    """What f must receive according to Python's own binding; None when Python rejects the call."""
    try:
        ba = sig.bind(*pos, **kw)
    except TypeError:
        return None
    out = {}
    for name, val in ba.arguments.items():
        p = sig.parameters[name]
        if p.kind is p.VAR_POSITIONAL:
            out[name] = tuple(conv(name, v) for v in val)
        elif p.kind is p.VAR_KEYWORD:
            out[name] = {k: conv(name, v) for k, v in val.items()}
        else:
            out[name] = conv(name, val)
    return out


def _received(ret, sig, defaults_of):
    return {n: v for n, v in ret}


def make_route(row, wide, defaults, flavour, timeout, use_wrap=False):
    rname = "".join(k for k, on in zip(KINDS, row) if on) or "none"
    cname = f"route/{rname}" + ("/wide" if wide else "") + ("/defaults" if defaults else "") + \
            ("" if flavour == "function" else "/" + flavour) + ("/wrap" if use_wrap else "")
    npos_params = (1 if row[0] else 0) + ((2 if wide else 1) if row[1] else 0)
    maxpos = npos_params + 2
    kwnames = [n for n, on in (("a", row[0]), ("b", row[1]), ("b2", row[1] and wide), ("c", row[3])) if on] + ["x", "y"]
    params = [(f"p{i}", int) for i in range(maxpos)] + [("n", int)] + [(f"k_{n}", bool) for n in kwnames] + \
             [(f"v_{n}", int) for n in kwnames]

    def body(**p):
        from typelib import binding

        with NoTracing():
            fn, sig, names = make_fn(row, wide, defaults, flavour=flavour)
            if use_wrap:
                bound = binding.wrap(fn)
                _install_stubs(bound.__kwdefaults__["__binding"], sig)
            else:
                bound = binding.bind(fn)
                _install_stubs(bound.binding, sig)
        n = p["n"] % (maxpos + 1)
        pos = []
        for i in range(maxpos):
            if i < n:
                pos.append(p[f"p{i}"])
        kw = {}
        for nm in kwnames:
            if p[f"k_{nm}"]:
                kw[nm] = p[f"v_{nm}"]
        exp = _expected(sig, pos, kw, lambda name, v: (name, v))
        po_names = [nm for nm, prm in sig.parameters.items() if prm.kind is prm.POSITIONAL_ONLY]
        if exp is None and row[4] and any(nm in kw for nm in po_names):
            # f(a, /, **kw) called with a=...: Python accepts (the name lands in **kw) when `a` is also
            # supplied positionally or has a default, inspect.Signature.bind does not model that: outside
            # the oracle's domain
            return None
        ok, ret = attempt(lambda: bound(*pos, **kw))
        reached()
        if exp is None:
            if ok:
                return ("rejected_call_accepted", rname, _d(pos, kw, ret))
            if not isinstance(ret, TypeError):
                return ("rejected_call_wrong_error:" + type(ret).__name__, rname, _d(pos, kw, ret))
            return None
        if not ok:
            return ("accepted_call_raised:" + type(ret).__name__, rname, _d(pos, kw, ret))
        got = {nm: v for nm, v in (ret.got if flavour == "class" else ret)}
        for name, param in sig.parameters.items():
            if name in exp:
                want = exp[name]
            elif param.kind is param.VAR_POSITIONAL:
                want = ()
            elif param.kind is param.VAR_KEYWORD:
                want = {}
            else:
                want = param.default  # omitted: f sees its own default, untouched
            if got[name] != want:
                if param.kind is param.VAR_KEYWORD and all(got[name].get(k) == v or k in po_names for k, v in want.items()) \
                        and len(got[name]) == len(want):
                    return ("misrouted:po_name_as_kwarg", rname, _d(pos, kw, got, exp))
                return ("misrouted:" + name, rname, _d(pos, kw, got, exp))
        return None

    return Cond(cname, params, body, mode="E1", timeout=timeout)


ANN = {"a": "int", "b": "str", "b2": "float", "args": "float", "c": "bool", "kw": "list[int]"}


ANN_CONTAINERS = {"a": "list[int]", "b": "dict[str, int]", "b2": "tuple[int, str]", "args": "list[int]", "c": "set[int]", "kw": "dict[str, list[int]]"}
# arguments that already have the container class of some annotation, with members that still need converting
CONTAINER_ARGS = [["1", 2], {"k": ["3"]}]


def make_e2e(row, timeout, unannotated=None, containers=False, flavour="function"):
    """Real unmarshallers, pairwise-distinguishable annotations; `unannotated` names one parameter left bare;
    `containers`: subscripted annotations and arguments that are already containers of unconverted members."""
    rname = "".join(k for k, on in zip(KINDS, row) if on) or "none"
    ann = {k: v for k, v in (ANN_CONTAINERS if containers else ANN).items() if k != unannotated}
    cname = f"e2e/{rname}" + (f"/bare_{unannotated}" if unannotated else "") + ("/containers" if containers else "") + \
            ("" if flavour == "function" else "/" + flavour)

    def argval(i):
        return CONTAINER_ARGS[i % 2] if containers else i % 3

    npos_params = (1 if row[0] else 0) + (1 if row[1] else 0)
    maxpos = npos_params + 1
    kwnames = [n for n, on in (("a", row[0]), ("b", row[1]), ("c", row[3])) if on] + ["x"]
    params = [(f"p{i}", int) for i in range(maxpos)] + [("n", int)] + [(f"k_{n}", bool) for n in kwnames] + \
             [(f"v_{n}", int) for n in kwnames]

    def body(**p):
        from typelib import binding, unmarshals

        with NoTracing():
            fn, sig, names = make_fn(row, False, False, annotate=ann, flavour=flavour)
            bound = binding.wrap(fn) if flavour == "subclass" else binding.bind(fn)
            UM = {name: unmarshals.unmarshaller(eval(ann[name])) for name in names if name in ann}  # noqa: S307
        n = p["n"] % (maxpos + 1)
        pos = []
        for i in range(maxpos):
            if i < n:
                pos.append(argval(p[f"p{i}"]))
        kw = {}
        for nm in kwnames:
            if p[f"k_{nm}"]:
                kw[nm] = argval(p[f"v_{nm}"])
        if any(nm in kw for nm, prm in sig.parameters.items() if prm.kind is prm.POSITIONAL_ONLY):
            return None  # positional-only name reused as a **kw key: covered (and classified) by route/*
        try:
            ba = sig.bind(*pos, **kw)
        except TypeError:
            return None  # rejection is covered by route/*

        def conv(name, v):
            return UM[name](v) if name in UM else v

        failed = False
        exp = {}
        for name, val in ba.arguments.items():
            prm = sig.parameters[name]
            if prm.kind is prm.VAR_POSITIONAL:
                r = [attempt(conv, name, v) for v in val]
                failed = failed or not all(o for o, _ in r)
                exp[name] = tuple(v for _, v in r)
            elif prm.kind is prm.VAR_KEYWORD:
                r = {k: attempt(conv, name, v) for k, v in val.items()}
                failed = failed or not all(o for o, _ in r.values())
                exp[name] = {k: v for k, (_, v) in r.items()}
            else:
                o, v = attempt(conv, name, val)
                failed = failed or not o
                exp[name] = v
        ok, ret = attempt(lambda: bound(*pos, **kw))
        reached()
        if failed:
            return None if not ok else ("conversion_failure_swallowed", rname, _d(pos, kw, ret))
        if not ok:
            return ("accepted_call_raised:" + type(ret).__name__, rname, _d(pos, kw, ret))
        got = dict(ret.got if flavour == "subclass" else ret)
        for name in exp:
            g, w = got[name], exp[name]
            same = type(g) is type(w) and g == w
            if same and type(g) is tuple:
                same = all(type(x) is type(y) for x, y in zip(g, w))
            if same and type(g) is dict:
                same = all(type(g[k]) is type(w[k]) for k in g)
            if not same:
                return ("converted_by_wrong_routine:" + name, rname, _d(pos, kw, got, exp))
        return None

    return Cond(cname, params, body, mode="E1", timeout=timeout)


def make_wrap_meta(timeout):
    def body(k: int):
        from typelib import binding

        with NoTracing():
            fn, sig, names = make_fn((True, True, True, True, True), False, False)
            w = binding.wrap(fn)
            reached()
            for attr in ("__name__", "__doc__", "__module__", "__qualname__"):
                if getattr(w, attr, None) != getattr(fn, attr, None):
                    return ("wrap_metadata:" + attr, "wrap", _d(getattr(w, attr, None)))
            if getattr(w, "__wrapped__", None) is not fn:
                return ("wrap_metadata:__wrapped__", "wrap", "")
            ok, r = attempt(lambda: w(1, 2, 3, c=4, z=5))
            if not ok or dict(r) != {"a": 1, "b": 2, "args": (3,), "c": 4, "kw": {"z": 5}}:
                return ("wrap_call", "wrap", _d(r))
        return None

    return Cond("wrap/metadata", [("k", int)], body, mode="E3", timeout=timeout)


def rows():
    return list(itertools.product((False, True), repeat=5))


def conditions(tier, seed):
    to = 20.0 if tier == "quick" else 90.0
    out = []
    allrows = rows()
    for row in allrows:
        out.append(make_route(row, False, False, "function", to))
    wide_rows = allrows if tier != "quick" else [r for i, r in enumerate(allrows) if r[1] and (i + seed) % 2 == 0]
    for row in wide_rows:
        if row[1]:
            out.append(make_route(row, True, False, "function", to))
    for row in (allrows if tier != "quick" else [r for i, r in enumerate(allrows) if (i + seed) % 4 == 1]):
        if any(row[i] for i in (0, 1, 3)):
            out.append(make_route(row, False, True, "function", to))
    for flav in ("method", "callable", "class"):
        for row in [(True, True, True, True, True), (False, True, False, True, False), (True, False, True, False, True),
                    (False, True, True, True, False), (False, False, True, False, True), (True, True, False, False, False)]:
            out.append(make_route(row, False, False, flav, to))
    for row in [(True, True, True, True, True), (False, True, False, False, False), (False, True, True, True, False)]:
        out.append(make_route(row, False, False, "function", to, use_wrap=True))
    for row in allrows:
        out.append(make_e2e(row, to))
    for row, bare in [((True, True, True, True, True), "b"), ((False, True, False, True, False), "c"),
                      ((True, True, False, False, False), "a"), ((False, True, True, False, True), "args")]:
        out.append(make_e2e(row, to, unannotated=bare))
        out.append(make_e2e(row, 3 * to, containers=True))
    for row in [(True, True, True, True, True), (False, True, False, True, False), (False, True, True, False, False)]:
        out.append(make_e2e(row, to, flavour="decorated_method"))
        out.append(make_e2e(row, to, flavour="subclass"))
    out.append(make_wrap_meta(to))
    return out
