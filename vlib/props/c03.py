"""C03 - unmarshal(T, x) raises or returns a value that structurally conforms to T (DESIGN 4, C03)."""
from __future__ import annotations

import datetime

from vlib import universe
from vlib.cond import Cond
from vlib.fixtures import models as M
from vlib.prelude import SYMBOLIC, NoTracing, attempt, reached
from vlib.shapes import JVal, Src, corrupt, jparams, params_for

META = {
    "functions": ["typelib.unmarshals.routines.*.__call__", "typelib.unmarshals.api.DelayedUnmarshaller",
                  "typelib.serdes.load/strload/decode/iteritems/itervalues/dateparse", "typelib.py.inspection.origin"],
    "bounds": {
        "quick": "catalogue depth<=2; input family J: x in None|bool|int[-2,2]|float(4 picks)|str(11 picks)|list[J]|dict[str,J] "
                 "to depth 1, len<=2, plus instances of unrelated classes and bytes; input family W: marshal(v) of a symbolic valid v "
                 "with one symbolic corruption (drop/rename/retype field, remove/add element, wrap/unwrap); 30 s per condition",
        "thorough": "catalogue depth<=3; J depth 2; 120 s per condition",
    },
    "assumptions": ["text reaching strload is realised at the orjson boundary (pick-list strings)",
                    "conformance oracle: vlib.shapes.*.conforms (isinstance per position; bool accepted for int)"],
}

EXTRA = [M.Unrelated(), b"ab", M.Point(1, 2), M.NT(1, "x"), (1, "a"), b"x", b"a", bytearray(b"y"), b"2",
         M.Point("1", "2"), M.Point(1, None), M.NT("1", 2), datetime.timedelta(seconds=90), datetime.date(2020, 1, 2)]


def _um(T):
    """The public entry point `unmarshal(T, .)` (the routine is built here so that a build failure is reported as such)."""
    from typelib import unmarshals

    with NoTracing():
        unmarshals.unmarshaller(T)

    def call(x):
        return unmarshals.unmarshal(T, x)

    return call


def _mm(T):
    from typelib import marshals

    with NoTracing():
        return marshals.marshaller(T)


def _d(*xs):
    return "" if SYMBOLIC else " | ".join(repr(x)[:160] for x in xs)


def make_j(shape, depth, timeout):
    try:
        UT, err = _um(shape.T), None
    except Exception as e:  # noqa: BLE001
        UT, err = None, type(e).__name__
    site = shape.name
    J = JVal(depth, extra=EXTRA)

    def body(**p):
        if err is not None:
            reached()
            return ("build_failed", site, err)
        x = J.build(Src(p))
        ok, r = attempt(UT, x)
        reached()
        if not ok:
            return None
        w = shape.conforms(r)
        if w is not None:
            return ("nonconforming:" + w.split(":")[-1], site, _d(x, r, w))
        return None

    return Cond(f"J/{site}", jparams(depth), body, mode="E1", timeout=timeout, bounds=f"J depth {depth} -> {site}")


def make_w(shape, timeout):
    try:
        UT, MT, err = _um(shape.T), _mm(shape.T), None
    except Exception as e:  # noqa: BLE001
        UT = MT = None
        err = type(e).__name__
    site = shape.name
    P = JVal(0)
    vparams = params_for(shape)
    cparams = [(f"c{j}", int) for j in range(4)]

    def body(**p):
        if err is not None:
            reached()
            return ("build_failed", site, err)
        v = shape.build(Src(p, narrow=True))
        ok, m = attempt(MT, v)
        if not ok:
            return None  # C01's business
        x = corrupt(m, Src({("i" + k[1:]): val for k, val in p.items() if k[0] == "c"}), P)
        ok, r = attempt(UT, x)
        reached()
        if not ok:
            return None
        w = shape.conforms(r)
        if w is not None:
            return ("nonconforming:" + w.split(":")[-1], site, _d(v, x, r, w))
        return None

    return Cond(f"W/{site}", vparams + cparams, body, mode="E1", timeout=timeout, bounds=f"corrupted wire form of {site}")


def conditions(tier, seed):
    to = 20.0 if tier == "quick" else 120.0
    depth = 1 if tier == "quick" else 2
    out = []
    for s in universe.select(tier, seed):
        out.append(make_j(s, depth, to))
    for s in universe.select(tier, seed, extra=4):
        if s.name in ("None",) or (tier == "quick" and not _composite(s)):
            continue
        out.append(make_w(s, to))
    return out


def _composite(s):
    return any(k in s.__dict__ for k in ("elem", "elems", "fields", "key", "inner"))
