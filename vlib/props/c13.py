"""C13 - already-valid values pass through unmarshal unchanged; unmarshal is idempotent (DESIGN 4, C13)."""
from __future__ import annotations

from vlib import universe
from vlib.cond import Cond
from vlib.fixtures import models as M
from vlib.prelude import SYMBOLIC, NoTracing, attempt, reached
from vlib.shapes import EnumS, JVal, Src, jparams, params_for

META = {
    "functions": ["typelib.unmarshals.routines.*.__call__ (isinstance short-circuits)", "typelib.serdes.load/iteritems/itervalues",
                  "typelib.serdes._is_iterable_of_pairs/get_items_iter/_make_fields_iterator"],
    "bounds": {
        "quick": "union-free / Optional-only catalogue (core + seed slice); pt: valid v with unbounded ints, symbolic str len<=2, "
                 "containers len<=2; ptx: the same v with every str leaf drawn from the adversarial list "
                 "('1','null','[1]','ab','2020-01-01','{\"a\": 1}','true'); idem: x in J depth 1; 20 s per condition",
        "thorough": "full catalogue depth<=3; J depth 2; 120 s per condition",
    },
    "assumptions": ["idempotence is only asserted when the first result conforms to T (non-conforming results are C03's subject)"],
}

ADV = ("1", "null", "[1]", "ab", "2020-01-01", '{"a": 1}', "true")
EXTRA = [M.Unrelated(), b"ab", M.Point(1, 2), M.NT(1, "x"), (1, "a")]


def _um(T):
    from typelib import unmarshals

    with NoTracing():
        unmarshals.unmarshaller(T)
    return lambda x: unmarshals.unmarshal(T, x)  # the public entry point


def _d(*xs):
    return "" if SYMBOLIC else " | ".join(repr(x)[:160] for x in xs)


def make_pt(shape, timeout, adversarial):
    try:
        UT, err = _um(shape.T), None
    except Exception as e:  # noqa: BLE001
        UT, err = None, type(e).__name__
    site0 = shape.name
    tag = getattr(shape, "tag", None)

    def body(**p):
        if err is not None:
            reached()
            return ("build_failed", site0, err)
        v = shape.build(Src(p, strs=ADV) if adversarial else Src(p))
        v0 = shape.build(Src(p, strs=ADV) if adversarial else Src(p))
        site = site0
        if tag is not None:
            with NoTracing():
                site = site0 + ":" + tag(v)
        ok, r = attempt(UT, v)
        reached()
        if not ok:
            return ("valid_value_rejected", site, _d(type(r).__name__, v))
        if not shape.same(v0, r):
            return ("valid_value_changed", site, _d(v0, r))
        if not shape.same(v0, v):
            return ("input_mutated", site, _d(v0, v))
        return None

    return Cond(("ptx/" if adversarial else "pt/") + site0, params_for(shape), body,
                mode="E1" if shape.transparent else "E1+picks", timeout=timeout)


def make_idem(shape, depth, timeout, family):
    """family J: x arbitrary; family M: x = marshal(v) for a symbolic valid v (reaches the second pass
    for structured / nested types, which J at small depth cannot construct)."""
    try:
        UT, err = _um(shape.T), None
        if family == "M":
            from typelib import marshals

            with NoTracing():
                MT = marshals.marshaller(shape.T)
    except Exception as e:  # noqa: BLE001
        UT, err = None, type(e).__name__
    site = shape.name
    J = JVal(depth, extra=EXTRA)

    def body(**p):
        if err is not None:
            reached()
            return ("build_failed", site, err)
        if family == "J":
            x = J.build(Src(p))
        else:
            ok, x = attempt(MT, shape.build(Src(p)))
            if not ok:
                return None
        ok, r1 = attempt(UT, x)
        if not ok:
            return None
        if shape.conforms(r1) is not None:
            return None
        ok, r2 = attempt(UT, r1)
        reached()
        if not ok:
            return ("second_pass_rejected", site, _d(x, r1, type(r2).__name__))
        if not shape.same(r1, r2):
            return ("second_pass_changed", site, _d(x, r1, r2))
        return None

    return Cond(f"idem{family}/{site}", jparams(depth) if family == "J" else params_for(shape), body, mode="E1", timeout=timeout)


def _has_str(shape, seen=None):
    from vlib.shapes import Str

    seen = seen if seen is not None else set()
    if id(shape) in seen:
        return False
    seen.add(id(shape))
    if isinstance(shape, Str):
        return shape.picks is None
    d = shape.__dict__
    subs = [d[k] for k in ("elem", "key", "val", "inner") if k in d and not k.startswith("_")]
    subs += list(d.get("elems") or ()) + list((d.get("fields") or {}).values())
    return any(_has_str(s, seen) for s in subs if not type(s).__name__ == "Lazy")


def conditions(tier, seed):
    to = 20.0 if tier == "quick" else 120.0
    depth = 1 if tier == "quick" else 2
    from vlib.props.c01 import _has_union

    unionfree = lambda shapes: [x for x in shapes if not _has_union(x)]  # noqa: E731  (C13 is about union-free / Optional-only T)
    sel = unionfree(universe.select(tier, seed))
    sel = sel + [EnumS(M.TagNum)]
    out = [make_pt(s, to, False) for s in sel]
    out += [make_pt(s, to, True) for s in unionfree(universe.select(tier, seed)) if _has_str(s)]
    for s in unionfree(universe.select(tier, seed, extra=4)):
        if _composite(s):
            out.append(make_idem(s, depth, to, "M"))
        if not _struct(s) or tier != "quick":
            out.append(make_idem(s, depth, to, "J"))
    return out


def _composite(s):
    return any(k in s.__dict__ for k in ("elem", "elems", "fields", "key", "inner"))


def _struct(s):
    return "fields" in s.__dict__ or ("inner" in s.__dict__ and "fields" in s.__dict__["inner"].__dict__)
