"""C20 - annotation rewriting for older interpreters preserves meaning (DESIGN 4, C20).

E3: derivations of an annotation-expression grammar are selected by choice variables (the solver
enumerates the derivation tree exhaustively, lazily forking on each consulted choice); the real
`future.transform` runs natively on the rendered string."""
from __future__ import annotations

import ast
import dataclasses
import re
import typing

from vlib.cond import Cond
from vlib.prelude import SYMBOLIC, Chooser, NoTracing, reached

META = {
    "functions": ["typelib.py.future.transform", "typelib.py.future.TransformAnnotation.visit_BinOp/visit_Name/visit_Subscript/visit_Tuple",
                  "typelib.py.future._GENERICS"],
    "bounds": {
        "quick": "every derivation of 9 productions (names, dotted names, subscripts of 13 heads incl. frozenset (not rewritten), tuples, ellipsis, left-/right-nested "
                 "and parenthesised |-chains, Literal with '|' / '[' inside strings, Callable[[..], ..], Annotated, string references, "
                 "None, and 9 non-annotation shapes: arithmetic, calls, conditional expressions) at depth 1 over a 15-leaf alphabet "
                 "(6 leaves for the three cubic productions) and at depth 2 with operands from a 19-option core sub-grammar; 40 s each; every documented builtin name must be rewritten in annotation inputs; "
                 "history: any 2 of 14 prior uses of the library (references / context lookups / routines for classes named Pattern and dict, re.Pattern) then transform of 9 strings",
        "thorough": "adds the cubic productions over the full alphabet and depth 3 (budgeted, 240 s per production; not exhausted -> inconclusive)",
    },
    "assumptions": [
        "reference meaning of an expression: its AST evaluated by the harness's own evaluator in a namespace of distinct classes, with "
        "`|` read as typing.Union; non-annotation nodes are opaque constructors over the meanings of their operands",
        "for non-annotation expressions only: no crash, fixpoint, preserved meaning, identical AST when nothing is rewritable",
    ],
}


def _d(*xs):
    return "" if SYMBOLIC else " | ".join(repr(x)[:200] for x in xs)


class A: pass
class B: pass
class C: pass


NS = {"typing": typing, "t": typing, "A": A, "B": B, "C": C, "list": list, "dict": dict, "set": set, "tuple": tuple, "int": int,
      "str": str, "None": None, "Pattern": re.Pattern, "Optional": typing.Optional, "Union": typing.Union, "Literal": typing.Literal,
      "Callable": typing.Callable, "Annotated": typing.Annotated, "type": type, "f": lambda *a, **k: ("f", a), "frozenset": frozenset}

LEAVES = ["A", "B", "int", "None", "list", "dict", "typing.List", "t.Dict", "'A'", "'A | B'", "Pattern", "...", "frozenset", "set", "tuple"]
HEADS1 = ["list", "set", "typing.List", "Optional", "type", "typing.Sequence", "Pattern", "frozenset"]
HEADS2 = ["dict", "typing.Dict", "tuple", "Union", "typing.Mapping"]
LITS = ["Literal['a|b']", "Literal['x[y]', 1]", "typing.Literal['a | b', 'c']", "Literal[1]"]


SMALL = ["A", "None", "list", "typing.List", "'A | B'", "..."]
TINY = ["A", "None", "list"]


def core(ch: Chooser) -> str:
    """The 19-option sub-grammar used below the top level at depth 2."""
    k = ch.pick(4)
    if k == 0:
        return ch.choose(TINY)
    if k == 1:
        return f"{ch.choose(['list', 'Optional'])}[{ch.choose(TINY)}]"
    if k == 2:
        return f"{ch.choose(TINY)} | {ch.choose(TINY)}"
    return "Literal['a|b']"


def gen(ch: Chooser, depth: int, prod=None, leaves=None, form=None) -> str:
    """Render one derivation; `prod` fixes the top-level production.  depth 1: operands are leaves;
    depth 2: operands come from `core`; depth 3: operands are full depth-2 derivations (budgeted)."""
    L = leaves or LEAVES

    def sub():
        if depth <= 1:
            return ch.choose(L)
        if depth == 2:
            return core(ch)
        return gen(ch, depth - 1, None, SMALL)

    if depth <= 0:
        return ch.choose(L)
    p = ch.pick(9) if prod is None else prod
    if p == 0:
        return ch.choose(L)
    if p == 1:
        return f"{ch.choose(HEADS1)}[{sub()}]"
    if p == 2:
        return f"{ch.choose(HEADS2)}[{sub()}, {sub()}]"
    if p == 3:  # |-chains in every association / parenthesisation
        form = ch.pick(5) if form is None else form
        a, b = sub(), sub()
        if form == 0:
            return f"{a} | {b}"
        if form == 4:
            return f"({a}) | ({b})"
        c = ch.choose(TINY) if depth >= 2 else sub()
        return (f"{a} | {b} | {c}", f"({a} | {b}) | {c}", f"{a} | ({b} | {c})")[form - 1]
    if p == 4:
        return ch.choose(LITS)
    if p == 5:
        return f"Callable[[{sub()}, {sub()}], {ch.choose(TINY) if depth >= 2 else sub()}]"
    if p == 6:
        return f"Annotated[{sub()}, 'm | n', {ch.choose(['1', 'list', 'A | B'])}]"
    if p == 7:
        return f"tuple[{sub()}, ...]"
    form = ch.pick(9) if form is None else form
    a, b = sub(), sub()
    c = ch.choose(TINY)
    return (f"{a} + {b}", f"{a} + {b} | {c}", f"{a} | {b} + {c}", f"f({a} | {b})", f"f({a}, k={b})", f"-{a}",
            f"{a} if {b} else {c}", f"{a} - {b} | {c} | {a}", f"({a} | {b}) & {c}")[form]


class NonAnn(Exception):
    pass


def E(node, in_literal=False):
    """Reference meaning of an expression AST."""
    if isinstance(node, ast.Expression):
        return E(node.body)
    if isinstance(node, ast.Constant):
        if in_literal or not isinstance(node.value, str):
            return ("const", repr(node.value))
        return ("ref", node.value)
    if isinstance(node, ast.Name):
        if node.id not in NS:
            return ("name", node.id)
        return ("obj", NS[node.id])
    if isinstance(node, ast.Attribute):
        base = E(node.value)
        if base[0] == "obj" and hasattr(base[1], node.attr):
            return ("obj", getattr(base[1], node.attr))
        return ("attr", base, node.attr)
    if isinstance(node, ast.Tuple):
        return ("tuple", tuple(E(e, in_literal) for e in node.elts))
    if isinstance(node, ast.List):
        return ("list", tuple(E(e, in_literal) for e in node.elts))
    if isinstance(node, ast.Subscript):
        head = E(node.value)
        lit = head[0] == "obj" and head[1] is typing.Literal
        sl = E(node.slice, in_literal=lit)
        args = sl[1] if sl[0] == "tuple" else (sl,)
        if head[0] == "obj" and head[1] in (typing.Optional,):
            return ("union", _flat((args[0], ("const", "None"))))
        if head[0] == "obj" and head[1] is typing.Union:
            return ("union", _flat(args))
        return ("sub", _origin(head), args)
    if isinstance(node, ast.BinOp) and isinstance(node.op, ast.BitOr):
        return ("union", _flat((E(node.left), E(node.right))))
    # anything else is not an annotation construct: opaque constructor over the meanings of its operand expressions
    kids = tuple(E(c) for c in ast.iter_child_nodes(node) if isinstance(c, ast.expr))
    ops = tuple(type(c).__name__ for c in ast.iter_child_nodes(node) if not isinstance(c, (ast.expr, ast.expr_context)))
    kw = tuple((k.arg, E(k.value)) for k in getattr(node, "keywords", []) or [])
    return ("opaque", type(node).__name__, ops, kids, kw)


def _flat(args):
    out = []
    for a in args:
        if a[0] == "union":
            out.extend(a[1])
        else:
            out.append(a)
    dedup = []
    for a in out:
        if a not in dedup:
            dedup.append(a)
    return tuple(dedup)


def _origin(head):
    """typing.List and list denote the same origin (the documented builtin -> typing mapping)."""
    if head[0] == "obj":
        o = typing.get_origin(head[1])
        if o is not None:
            return ("obj", o)
        return head
    return head


def norm(m):
    """Bare `typing.List` and `list` are the same type too."""
    if m[0] == "obj":
        return _origin(m)
    if m[0] == "union":  # members normalised first, then flattened and de-duplicated (typing.Union semantics)
        return ("union", _flat(tuple(norm(x) for x in m[1])))
    if m[0] in ("tuple", "list"):
        return (m[0], tuple(norm(x) for x in m[1]))
    if m[0] == "sub":
        return ("sub", norm(m[1]), tuple(norm(x) for x in m[2]))
    if m[0] == "opaque":
        return ("opaque", m[1], m[2], tuple(norm(x) for x in m[3]), tuple((k, norm(v)) for k, v in m[4]))
    if m[0] == "attr":
        return ("attr", norm(m[1]), m[2])
    return m


def has_bitor_outside_constants(tree) -> bool:
    return any(isinstance(n, ast.BinOp) and isinstance(n.op, ast.BitOr) for n in ast.walk(tree))


REWRITABLE = {"dict", "list", "set", "tuple", "Pattern"}


def has_rewritable(tree) -> bool:
    for n in ast.walk(tree):
        if isinstance(n, ast.BinOp) and isinstance(n.op, ast.BitOr):
            return True
        if isinstance(n, ast.Name) and n.id in REWRITABLE:
            return True
    return False


def is_annotation(tree) -> bool:
    ok = (ast.Expression, ast.Constant, ast.Name, ast.Attribute, ast.Tuple, ast.List, ast.Subscript, ast.BinOp, ast.BitOr, ast.Load,
          ast.expr_context)
    for n in ast.walk(tree):
        if not isinstance(n, ok):
            return False
        if isinstance(n, ast.BinOp) and not isinstance(n.op, ast.BitOr):
            return False
    return True


def check(s: str):
    from typelib.py import future

    fn = getattr(future.transform, "__wrapped__", future.transform)
    try:
        ast.parse(s, mode="eval")
    except SyntaxError:
        return None  # the renderer nested two conditional expressions without parentheses: not an expression string
    try:
        t = fn(s)
    except Exception as e:  # noqa: BLE001
        return ("transform_raised:" + type(e).__name__, "transform", _d(s))
    try:
        ts, tt = ast.parse(s, mode="eval"), ast.parse(t, mode="eval")
    except SyntaxError:
        return ("output_not_parseable", "transform", _d(s, t))
    ann = is_annotation(ts)
    site = "annotation" if ann else "non_annotation"
    if norm(E(ts)) != norm(E(tt)):
        return ("meaning_changed", site, _d(s, t))
    if ann and has_bitor_outside_constants(tt):
        return ("union_operator_left", site, _d(s, t))
    if ann and any(isinstance(n, ast.Name) and n.id in REWRITABLE for n in ast.walk(tt)):
        return ("documented_name_not_rewritten", site, _d(s, t))
    try:
        t2 = fn(t)
    except Exception as e:  # noqa: BLE001
        return ("transform_raised_on_own_output:" + type(e).__name__, site, _d(s, t))
    if t2 != t:
        return ("not_a_fixpoint", site, _d(s, t, t2))
    if not has_rewritable(ts) and ast.dump(ts) != ast.dump(tt):
        return ("changed_without_cause", site, _d(s, t))
    return None


def make(prod, depth, timeout, leaves=None, tag="", form=None):
    pname = ("leaf", "generic1", "generic2", "union_chain", "literal", "callable", "annotated", "vartuple", "non_annotation")[prod]
    nvars = {1: 8, 2: 16, 3: 60}[depth]

    def body(**p):
        ch = Chooser([p[f"c{i}"] for i in range(nvars)])
        with NoTracing():
            s = gen(ch, depth, prod, leaves, form)
            reached()
            return check(s)

    return Cond(f"gram/{pname}/d{depth}{tag}", [(f"c{i}", int) for i in range(nvars)], body, mode="E3", timeout=timeout)


def make_fixed(timeout):
    """The documented examples and the strings of tests/unit/py/test_future.py as a sanity anchor."""
    vec = ["str | int", "dict[str, int]", "str | int | None", "list[str | None]", "Literal['a|b'] | None", "a + b | c",
           "typing.Optional[dict[str, list[int] | None]]", "Callable[[int | str], dict[str, int]]", "tuple[int | None, ...]"]

    def body(c0: int):
        ch = Chooser((c0,))
        with NoTracing():
            reached()
            return check(vec[ch.pick(len(vec))])

    return Cond("fixed/examples", [("c0", int)], body, mode="E3", timeout=timeout)


@dataclasses.dataclass
class Pattern:  # a self-referential user class that shares its name with a rewritten builtin generic
    sub: "typing.Optional[Pattern]" = None


class dict_(dict):
    pass


dict_.__name__ = dict_.__qualname__ = "dict"


def make_history(timeout):
    """transform is a function of its argument alone: the rewrite table is the same after any other use of the library
    (references to classes named like a rewritten generic, routines for re.Pattern, context lookups)."""
    strings = ["Pattern[bytes] | None", "dict[str, Pattern[str]]", "list[int]", "set[A] | tuple[A, ...]", "tuple", "Pattern", "dict",
               "frozenset[int] | None", "typing.Optional[list[A]]"]

    def body(c0: int, c1: int, c2: int, c3: int):
        import typelib
        from typelib import ctx
        from typelib.py import future, inspection, refs

        triggers = [
            lambda: refs.forwardref(re.Pattern), lambda: refs.forwardref(Pattern), lambda: refs.forwardref(dict_),
            lambda: ctx.TypeContext().get(Pattern), lambda: ctx.TypeContext().get(re.Pattern), lambda: ctx.TypeContext().get(dict_),
            lambda: typelib.unmarshal(Pattern, {"sub": {"sub": None}}), lambda: typelib.marshal(Pattern(Pattern())),
            lambda: typelib.unmarshal(re.Pattern, "a+"), lambda: typelib.marshal(re.compile("a")),
            lambda: refs.evaluate(refs.forwardref("dict[str, int]", module=__name__)), lambda: inspection.get_type_hints(Pattern),
            lambda: typelib.unmarshal(typing.Pattern[str], "b"), lambda: typelib.unmarshal(dict_, {"a": 1}),
        ]
        ch = Chooser((c0, c1, c2, c3))
        with NoTracing():
            from vlib import caches

            caches.clear_all()  # also restores module-level tables: every path starts from the import-time state
            for _ in range(2):
                try:
                    triggers[ch.pick(len(triggers))]()
                except Exception:  # noqa: BLE001, S110 - the trigger's own outcome is not the subject
                    pass
            s = strings[ch.pick(len(strings))]
            reached()
            r = check(s)
            if r is not None:
                return ("after_history:" + r[0], r[1], r[2])
            future.transform.cache_clear() if hasattr(future.transform, "cache_clear") else None
            a = future.transform(s)
            b = getattr(future.transform, "__wrapped__", future.transform)(s)
            if a != b:
                return ("after_history:cached_differs", "transform", _d(s, a, b))
        return None

    return Cond("history/two_prior_uses", [(f"c{i}", int) for i in range(4)], body, mode="E3", timeout=timeout)


def conditions(tier, seed):
    to = 40.0 if tier == "quick" else 240.0
    out = []
    # depth 1: every production over the full 12-leaf alphabet where that closes, else the 6-leaf alphabet
    for p in (0, 1, 2, 4, 6, 7):
        out.append(make(p, 1, to))
    for p in (3, 5, 8):
        out.append(make(p, 1, to, SMALL, "/small"))
    # depth 2: operands from the 19-option core sub-grammar
    for p in (1, 2, 5, 6, 7):
        out.append(make(p, 2, to))
    for form in range(5):
        out.append(make(3, 2, to, None, f"/form{form}", form))
    for form in range(9):
        out.append(make(8, 2, to, None, f"/form{form}", form))
    if tier != "quick":
        for p in (3, 5, 8):
            out.append(make(p, 1, to))          # full alphabet, budgeted
        for p in range(1, 9):
            out.append(make(p, 3, to))          # depth 3, budgeted: reported inconclusive when not exhausted
    out.append(make_fixed(to))
    out.append(make_history(to))
    return out
