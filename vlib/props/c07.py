"""C07 - recursive and mutually recursive types work at every depth (DESIGN 4, C07)."""
from __future__ import annotations

import dataclasses
import types
import typing as t

from vlib import universe
from vlib.cond import Cond
from vlib.fixtures import models as M
from vlib.prelude import SYMBOLIC, Chooser, NoTracing, attempt, reached
from vlib.props import c09
from vlib.shapes import Src, params_for, plain

META = {
    "functions": ["typelib.graph.get_type_graph (cycle cut)", "typelib.marshals.api.DelayedMarshaller", "typelib.unmarshals.api.DelayedUnmarshaller",
                  "typelib.py.refs.evaluate/forwardref", "typelib.py.inspection.unwrap (string-valued alias)", "typelib.codecs.codec",
                  "structured / container routines reached through the proxies"],
    "bounds": {
        "quick": "fixtures Tree, Chain, PNode, DNode, TNode, Ping/Pong, Dept/Emp and the recursive string-valued alias RecAlias: symbolic values of depth <= 2 "
                 "(unbounded ints, str len <= 2, fan-out <= 2) for round trip + per-level conformance + plain output; chains of depth d = 0..12 "
                 "(choice variable) with symbolic leaf ints; synthesised topologies: every directed graph over 3 dataclasses with one of 4 "
                 "edge kinds, each class and list / Optional / dict[str, .] of it as root, values of depth 2",
        "thorough": "symbolic depth 3; d = 0..150; two edge kinds per graph",
    },
    "assumptions": ["a failure on a graph whose order contains a forward reference to a bare generic is labelled `:bare_generic_ref` (the signature of the defect repaired by c7b2458; none occur on the repaired tree)",
                    "`below the interpreter's recursion limit` is read as: a RecursionError at nesting depth d is outside the claim only when 8 d + 100 >= 1000 (the default limit) (a routine may use a constant number of frames per level; about 7 are used)"],
}


def _d(*xs):
    return "" if SYMBOLIC else " | ".join(repr(x)[:220] for x in xs)


def _routines(T):
    from typelib import marshals, unmarshals

    with NoTracing():
        return marshals.marshaller(T), unmarshals.unmarshaller(T)


# ---------------------------------------------------------------------------------- fixtures, symbolic values
def make_fix(shape, timeout):
    try:
        MT, UT = _routines(shape.T)
        err = None
    except Exception as e:  # noqa: BLE001
        MT = UT = None
        err = type(e).__name__
    site = shape.name

    def body(**p):
        if err is not None:
            reached()
            return ("build_failed", site, err)
        v = shape.build(Src(p))
        ok, m = attempt(MT, v)
        if not ok:
            reached()
            return ("marshal_raised", site, _d(v, m))
        w = plain(m)
        if w is not None:
            reached()
            return ("level_marshalled_raw:" + w, site, _d(v, m))
        ok, r = attempt(UT, m)
        reached()
        if not ok:
            return ("unmarshal_raised", site, _d(v, m, r))
        c = shape.conforms(r)
        if c is not None:
            return ("level_unmarshalled_raw:" + c.split(":")[-1], site, _d(v, m, r))
        if not shape.same(v, r):
            return ("roundtrip_neq", site, _d(v, m, r))
        return None

    return Cond(f"fix/{site}", params_for(shape), body, mode="E1", timeout=timeout)


# ------------------------------------------------------------------------------------- depth d chains
def _chain_builders():
    def chain(d, a, b):
        v = M.Chain(b)
        for i in range(d):
            v = M.Chain(a + i, v)
        return v

    def pnode(d, a, b):
        v = M.PNode(b)
        for i in range(d):
            v = M.PNode(a + i, v)
        return v

    def tree(d, a, b):
        v = M.Tree(b)
        for i in range(d):
            v = M.Tree(a + i, [v])
        return v

    def dnode(d, a, b):
        v = M.DNode(b)
        for i in range(d):
            v = M.DNode(a + i, {"k": v})
        return v

    def tnode(d, a, b):
        v = M.TNode(b)
        for i in range(d):
            v = M.TNode(a + i, (v,))
        return v

    def ping(d, a, b):
        v = M.Ping(b)
        for i in range(d):
            v = M.Pong("w", v) if i % 2 == 0 else M.Ping(a + i, v)
        return v if isinstance(v, M.Ping) else M.Ping(a, v)

    def opt_rec(d, a, b):
        v = None
        for i in range(d):
            v = {"k": v}
        return v

    def rec_alias(d, a, b):
        v = {"leaf": b}
        for i in range(d):
            v = {"k": v, "n": a + i}
        return v

    def dotted_rec(d, a, b):
        import datetime

        with NoTracing():  # a real date object (under tracing the engine substitutes its own pure-Python date class)
            v = datetime.date(2020, 1, 2)
            for i in range(d):
                v = {"k": v}
        return v

    def union_rec(d, a, b):  # UnionRec = "t.Union[list[UnionRec], int]"
        v = b
        for i in range(d):
            v = [v, a + i]
        return v

    return {"Chain": (M.Chain, chain), "PNode": (M.PNode, pnode), "Tree": (M.Tree, tree), "DNode": (M.DNode, dnode),
            "TNode": (M.TNode, tnode), "Ping": (M.Ping, ping), "RecAlias": (M.RecAlias, rec_alias), "OptRec": (M.OptRec, opt_rec),
            "UnionRec": (M.UnionRec, union_rec), "DottedRec": (M.DottedRec, dotted_rec)}


def _levels(v, depth=0):
    """Walk a fixture value: yields every nested fixture instance."""
    yield v
    if dataclasses.is_dataclass(v):
        for f in dataclasses.fields(v):
            x = getattr(v, f.name)
            for y in (x if isinstance(x, (list, tuple)) else x.values() if isinstance(x, dict) else [x]):
                if dataclasses.is_dataclass(y):
                    yield from _levels(y, depth + 1)
    elif isinstance(v, dict):
        for y in v.values():
            if isinstance(y, dict):
                yield from _levels(y, depth + 1)
    elif isinstance(v, list):
        for y in v:
            if isinstance(y, list):
                yield from _levels(y, depth + 1)


DEFAULT_LIMIT = 1000  # the interpreter's default; CPython 3.12 also has a fixed C-stack budget reached at about the same depth
FRAMES_PER_LEVEL = 8  # "below the interpreter's recursion limit": a routine may use a constant number of frames per level


def _beyond_stack(e, depth):
    """A RecursionError is outside the claim when the nesting depth itself approaches the interpreter's limit
    (depth x FRAMES_PER_LEVEL + 100 >= 1000, the default limit - the harness itself runs with a raised Python limit, CPython's C-stack budget is still reached near depth 140); below that it is a violation like any other exception."""
    return isinstance(e, RecursionError) and depth * FRAMES_PER_LEVEL + 100 >= DEFAULT_LIMIT


def make_deep(name, T, builder, dmax, timeout):
    try:
        MT, UT = _routines(T)
        err = None
    except Exception as e:  # noqa: BLE001
        MT = UT = None
        err = type(e).__name__

    def body(c0: int, a: int, b: int):
        if err is not None:
            reached()
            return ("build_failed", name, err)
        ch = Chooser((c0,))
        with NoTracing():
            d = ch.pick(dmax + 1)
        v = builder(d, a, b)
        ok, m = attempt(MT, v)
        if not ok:
            reached()
            if _beyond_stack(m, d):
                return None
            return ("marshal_raised", name, _d(d, m))
        w = plain(m)
        if w is not None:
            reached()
            return ("level_marshalled_raw:" + w, name, _d(d))
        ok, r = attempt(UT, m)
        reached()
        if not ok:
            if _beyond_stack(r, d):
                return None
            return ("unmarshal_raised", name, _d(d, r))
        # every level converted: the result equals the input and carries the classes of the input at each level
        vs, rs = list(_levels(v)), list(_levels(r))
        if len(vs) != len(rs):
            return ("level_unmarshalled_raw", name, _d(d, len(vs), len(rs)))
        for x, y in zip(vs, rs):
            if type(x) is not type(y):
                return ("level_unmarshalled_raw", name, _d(d, type(x), type(y)))
        if r != v:
            return ("roundtrip_neq", name, _d(d))
        return None

    return Cond(f"deep/{name}", [("c0", int), ("a", int), ("b", int)], body, mode="E3+E1", timeout=timeout)


# ------------------------------------------------------------------------------- synthesised topologies
def _value_for(T, members, depth, counter):
    """A value of annotation T following the synthesised classes' annotations down to `depth`."""
    if T is int:
        counter[0] += 1
        return counter[0]
    if T is str:
        return "s"
    if T is type(None):
        return None
    o = t.get_origin(T)
    if o is t.Union or o is types.UnionType:
        inner = [a for a in t.get_args(T) if a is not type(None)][0]
        return _value_for(inner, members, depth, counter) if depth > 0 else None
    if o is list:
        return [_value_for(t.get_args(T)[0], members, depth - 1, counter)] if depth > 0 else []
    if o is dict:
        return {"k": _value_for(t.get_args(T)[1], members, depth - 1, counter)} if depth > 0 else {}
    if T in members:
        kw = {}
        for f, ann in members[T]:
            kw[f] = _value_for(ann, members, depth - 1, counter)
        return T(**kw)
    raise TypeError(T)


def _constructible(T, members, seen=()):
    """A finite value exists iff every required class edge can bottom out (direct class fields cannot)."""
    if T in members:
        if T in seen:
            return False
        return all(_constructible(a, members, seen + (T,)) for _, a in members[T] if a in members)
    return True


def _all_levels_classes(v, members):
    out = []
    if type(v) in members:
        out.append(v)
        for f, _ in members[type(v)]:
            out += _all_levels_classes(getattr(v, f), members)
    elif isinstance(v, (list, tuple)):
        for x in v:
            out += _all_levels_classes(x, members)
    elif isinstance(v, dict):
        for x in v.values():
            out += _all_levels_classes(x, members)
    return out


def _synth(adj, ka, kb):
    """Three fresh dataclasses C0..C2 with an int payload `v`; edge i->j becomes field f{j} of C_i."""
    import sys
    import types

    c09._COUNTER[0] += 1
    mod = types.ModuleType(f"c07_mod_{c09._COUNTER[0]}")
    sys.modules[mod.__name__] = mod
    cls = [type(f"C{i}", (), {"__module__": mod.__name__, "__qualname__": f"C{i}"}) for i in range(3)]
    members = {}
    for i, c in enumerate(cls):
        setattr(mod, c.__name__, c)
        ann = {"v": int}
        for j in range(3):
            if adj[i * 3 + j]:
                ann[f"f{j}"] = c09.wrap_kind(ka if (i + j) % 2 == 0 else kb, cls[j])
        c.__annotations__ = ann
        members[c] = list(ann.items())
    for c in cls:
        dataclasses.dataclass(c)
    return cls, members, (mod,)


def run_topology(adj, ka, container, rooti, kb=None):
    from typelib import codecs, graph, marshals, unmarshals

    from vlib import caches

    cls, members, mods = _synth(adj, ka, ka if kb is None else kb)
    try:
        caches.clear_all()
        root = cls[rooti]
        root_T = (root, list[root], t.Optional[root], dict[str, root])[container]
        label = ("bare", "list", "Optional", "dict")[container] + "/" + c09.KINDS[ka]
        if not all(_constructible(c, members) for c in members):
            return None  # no finite value exists (a required direct class cycle)
        kf = ""
        try:
            order = graph.static_order(root_T)
            if any(isinstance(nd.type, t.ForwardRef) and nd.type.__forward_arg__ in c09._GENERIC_NAMES for nd in order):
                kf = ":bare_generic_ref"
        except RecursionError:
            return ("does_not_terminate", label, _d(adj))
        except Exception as e:  # noqa: BLE001
            return ("graph_raised:" + type(e).__name__, label, _d(adj, e))
        try:
            MT, UT = marshals.marshaller(root_T), unmarshals.unmarshaller(root_T)
            CT = codecs.codec(root_T)
        except RecursionError:
            return ("construction_does_not_terminate" + kf, label, _d(adj))
        except Exception as e:  # noqa: BLE001
            return ("construction_failed:" + type(e).__name__ + kf, label, _d(adj, e))
        v = _value_for(root_T, members, 3, [0])
        ok, m = attempt(MT, v)
        if not ok:
            return ("marshal_raised:" + type(m).__name__ + kf, label, _d(adj, v, m))
        w = plain(m)
        if w is not None:
            return ("level_marshalled_raw" + kf, label, _d(adj, v, m))
        ok, r = attempt(UT, m)
        if not ok:
            return ("unmarshal_raised:" + type(r).__name__ + kf, label, _d(adj, m, r))
        if len(_all_levels_classes(r, members)) != len(_all_levels_classes(v, members)):
            return ("level_unmarshalled_raw" + kf, label, _d(adj, v, r))
        if r != v:
            return ("roundtrip_neq" + kf, label, _d(adj, v, r))
        ok, back = attempt(lambda: CT.decode(CT.encode(v)))
        if not ok or back != v:
            return ("codec_roundtrip" + kf, label, _d(adj, v, back))
        return None
    finally:
        c09.cleanup(mods)


def make_topo(container, ka, rooti, timeout):
    def body(c0: int, c1: int):
        ch = Chooser((c0, c1))
        with NoTracing():
            bits = ch.pick(512)
            adj = [bool((bits >> i) & 1) for i in range(9)]
            # odd-parity edges take a second kind on a third of the graphs (direct class members included:
            # a cycle may hold the next class directly as long as some edge lets a value bottom out)
            kb = ka if bits % 3 else ch.pick(5)
            reached()
            return run_topology(adj, ka, container, rooti, kb)

    cn = ("bare", "list", "Optional", "dict")[container]
    return Cond(f"topo/{cn}/{c09.KINDS[ka]}/root{rooti}", [("c0", int), ("c1", int)], body, mode="E3", timeout=timeout)


def conditions(tier, seed):
    to = 40.0 if tier == "quick" else 240.0
    d = 2 if tier == "quick" else 3
    dmax = 12 if tier == "quick" else 150
    out = [make_fix(s, to) for s in universe.recursive(d)]
    from vlib.shapes import Wrapped, ListOf, Int, UnionS, Str, Seq  # noqa: F401

    for name, (T, b) in _chain_builders().items():
        out.append(make_deep(name, T, b, dmax, to))
    for container in range(4):
        for ka in range(5):
            for rooti in range(3):
                out.append(make_topo(container, ka, rooti, to))
    return out
