"""C12 - results depend only on (type, input), never on call history (DESIGN 4, C12).

E3 only, run natively: CrossHair removes memoisation under tracing, so the traced modes are blind to
exactly this property.  Bounded model checking of the stateful API: a sequence of operation instances is
selected by choice variables (the solver enumerates the sequences exhaustively); each operation's
outcome is compared with the same operation run alone after every cache was cleared."""
from __future__ import annotations

import copy
import datetime
import uuid
import decimal
import typing as t

from vlib.cond import Cond
from vlib.fixtures import iterobjs as O
from vlib.fixtures import mod_a, mod_b
from vlib.fixtures import models as M
from vlib.prelude import SYMBOLIC, Chooser, NoTracing, reached

UTC = datetime.timezone.utc
P3 = datetime.timezone(datetime.timedelta(hours=3))

META = {
    "functions": ["typelib.serdes.strload/load/isoformat/dateparse (LRU caches)", "typelib.marshals.api.marshaller / unmarshals.api.unmarshaller / "
                  "codecs.codec / graph.static_order (routine and graph caches)", "typelib.py.inspection.* (per-predicate caches)",
                  "Delayed*._resolved", "typelib.ctx.TypeContext.__missing__ (alias memo)", "typelib.api.encode/decode/marshal/unmarshal"],
    "bounds": {
        "quick": "all sequences of length <= 3 over an alphabet of 25 operation instances (21 fixed, among them the same reference text issued from two modules, + 4 seed-rotated from 49), and all ordered pairs over the whole alphabet of 91 instances + 6 special steps (mutate result / input, clear all caches, clear one public cache): "
                 "marshal / unmarshal / encode / decode / strload / isoformat on pools of equal-but-distinct operands (both member orders "
                 "of one union, equal instants with different offsets, 1 / 1.0 / True, the same text as str / bytes), build-routine ops, "
                 "deep-mutate the previous result, deep-mutate the previous input, clear caches",
        "thorough": "length <= 4 over two rotations of the 25-instance alphabet (budgeted: 240 s per first operation; what is not exhausted is reported inconclusive), all ordered pairs as in quick",
    },
    "assumptions": ["'cold process' is approximated by clearing every functools cache found in the loaded typelib modules",
                    "outcomes are compared by a canonical rendering (classes + values, utcoffset for aware temporals)"],
}


def _d(*xs):
    return "" if SYMBOLIC else " | ".join(repr(x)[:200] for x in xs)


def canon(x, depth=0):
    """Canonical rendering of an outcome: classes and values at every position."""
    tx = type(x)
    if tx in (list, tuple, set, frozenset):
        items = [canon(i, depth + 1) for i in x]
        if tx in (set, frozenset):
            items = sorted(items, key=repr)
        return (tx.__name__, tuple(items))
    if tx is dict:
        return ("dict", tuple((canon(k), canon(v)) for k, v in x.items()))
    if isinstance(x, (datetime.datetime, datetime.time)):
        return (tx.__name__, x.isoformat(), str(x.utcoffset()))
    if hasattr(x, "__dataclass_fields__"):
        return (tx.__name__, tuple((f, canon(getattr(x, f))) for f in x.__dataclass_fields__))
    if tx is memoryview:
        return ("memoryview", bytes(x) if not _released(x) else "<released>")
    if tx.__repr__ is object.__repr__:  # no value rendering of its own: by attributes (slots and / or __dict__)
        names = [n for c in tx.__mro__ for n in getattr(c, "__slots__", ())] + sorted(getattr(x, "__dict__", {}))
        return (tx.__name__, tuple((n, canon(getattr(x, n), depth + 1)) for n in names if hasattr(x, n)))
    return (tx.__name__, repr(x))


def _released(mv):
    try:
        mv.nbytes and mv[0]
        return False
    except ValueError:
        return True


def _snapshot(x):
    """A copy for the "input unmodified" comparison (memoryviews cannot be deep-copied: their bytes are kept)."""
    if type(x) is memoryview:
        return memoryview(bytes(x))
    return copy.deepcopy(x)


def containers(x, acc, depth=0):
    if depth > 6:
        return
    if type(x) in (list, dict, set, bytearray):
        acc.append(x)
    if type(x) in (list, tuple, set, frozenset):
        for i in x:
            containers(i, acc, depth + 1)
    elif type(x) is dict:
        for v in x.values():
            containers(v, acc, depth + 1)
    elif hasattr(x, "__dataclass_fields__"):
        for f in x.__dataclass_fields__:
            containers(getattr(x, f), acc, depth + 1)


def deep_mutate(x):
    """Mutate every mutable container reachable from x, in place."""
    acc = []
    containers(x, acc)
    for c in acc:
        if type(c) is list:
            c.append("MUTATED")
        elif type(c) is dict:
            c["MUTATED"] = "MUTATED"
        elif type(c) is set:
            c.add("MUTATED")
    return bool(acc)


class Op:
    def __init__(self, name, klass, mk_input, run, variant=None):
        self.name, self.klass, self.mk_input, self.run = name, klass, mk_input, run
        # which of the equal-but-distinct representations this instance uses (member order, offset, number class)
        self.variant = variant if variant is not None else name


_NY = None
_MM = []


def _fold(f):
    global _NY
    import zoneinfo

    if _NY is None:
        _NY = zoneinfo.ZoneInfo("America/New_York")
    return datetime.datetime(2020, 11, 1, 1, 30, tzinfo=_NY, fold=f)


def _view(content: bytes):
    """The same read-only memoryview object every time, over an anonymous mmap whose bytes are rewritten first."""
    import mmap

    if not _MM:
        mm = mmap.mmap(-1, 9)
        _MM.extend([mm, memoryview(mm).toreadonly()])
    _MM[0][:] = content
    return _MM[1]


def _ops():
    import typelib
    from typelib import serdes

    U1, U2 = t.Union[int, str], t.Union[str, int]
    dt_utc = datetime.datetime(2020, 1, 1, 12, 0, tzinfo=UTC)
    dt_p3 = datetime.datetime(2020, 1, 1, 15, 0, tzinfo=P3)
    tm_utc = datetime.time(12, 0, tzinfo=UTC)

    def op(name, klass, mk, run):
        variant = None
        if klass == "union_order":
            variant = "str,int" if ("Union[str,int]" in name) else "int,str"
        if "fold=" in name:
            variant = name.split("fold=")[1][0]
        if klass == "string_ref":
            variant = "mod_b" if "mod_b" in name else "mod_a"
        return Op(name, klass, mk, run, variant)

    core = [
        op("strload('[1, 2]')", "text", lambda: "[1, 2]", lambda x: serdes.strload(x)),
        op("unmarshal(list,'[1, 2]')", "text", lambda: "[1, 2]", lambda x: typelib.unmarshal(list, x)),
        op("unmarshal(list[int],'[1, 2]')", "text", lambda: "[1, 2]", lambda x: typelib.unmarshal(list[int], x)),
        op("isoformat(12:00Z)", "equal_instant", lambda: dt_utc, lambda x: serdes.isoformat(x)),
        op("isoformat(15:00+03)", "equal_instant", lambda: dt_p3, lambda x: serdes.isoformat(x)),
        op("unmarshal(Union[int,str],'1')", "union_order", lambda: "1", lambda x: typelib.unmarshal(U1, x)),
        op("unmarshal(Union[str,int],'1')", "union_order", lambda: "1", lambda x: typelib.unmarshal(U2, x)),
        op("unmarshal(Bag,dict)", "plain", lambda: {"items": [1, "2"], "names": {"a": "1"}, "maybe": None},
           lambda x: typelib.unmarshal(M.Bag, x)),
        op("marshal(Bag)", "plain", lambda: M.Bag([1, 2], {"a": 1}, 3), lambda x: typelib.marshal(x)),
        op("decode(dict[str,list[int]],bytes)", "text", lambda: b'{"a": [1, 2]}', lambda x: typelib.decode(dict[str, list[int]], x)),
        # the same routine on a different value of the same class (per-routine state), and two routines of one
        # class built in either order (shared construction-time state)
        op("unmarshal(Union[int,str],'abc')", "union_order", lambda: "abc", lambda x: typelib.unmarshal(U1, x)),
        op("unmarshal(list[int|str],['abc','5'])", "union_order", lambda: ["abc", "5"], lambda x: typelib.unmarshal(list[int | str], x)),
        op("marshal(Doc)", "plain", lambda: M.Doc("a", 7), lambda x: typelib.marshal(x)),
        op("unmarshal(Doc,dict)", "plain", lambda: {"name": "a", "_rev": "7"}, lambda x: typelib.unmarshal(M.Doc, x)),
        op("marshal(Order)", "plain", lambda: M.Order(2, 5), lambda x: typelib.marshal(x)),
        op("build(unmarshaller(Invoice))", "build", lambda: None, lambda x: type(typelib.unmarshaller(M.Invoice)).__name__),
        op("marshal(WithMeta)", "plain", lambda: M.WithMeta("n", {"k": 1}), lambda x: typelib.marshal(x)),
        op("marshal(dict,t=dict)", "plain", lambda: {"k": 1}, lambda x: typelib.marshal(x, t=dict)),
        op("unmarshal(OptRec,nested)", "plain", lambda: {"k": {"k": None}}, lambda x: typelib.unmarshal(M.OptRec, x)),
        # the same reference text issued from two modules that each define a class of that name
        op("unmarshal('Item' in mod_a)", "string_ref", lambda: {"id": "1", "tag": "2"}, lambda x: mod_a.unmarshal_here("Item", x)),
        op("unmarshal('Item' in mod_b)", "string_ref", lambda: {"id": "1", "tag": "2"}, lambda x: mod_b.unmarshal_here("Item", x)),
    ]
    pool = [
        op("load(b'[1, 2]')", "text", lambda: b"[1, 2]", lambda x: serdes.load(x)),
        op("strload('{\"a\": [1]}')", "text", lambda: '{"a": [1]}', lambda x: serdes.strload(x)),
        op("unmarshal(dict,'{\"a\": [1]}')", "text", lambda: '{"a": [1]}', lambda x: typelib.unmarshal(dict, x)),
        op("marshal(15:00+03,t=datetime)", "equal_instant", lambda: dt_p3, lambda x: typelib.marshal(x, t=datetime.datetime)),
        op("marshal(12:00Z,t=datetime)", "equal_instant", lambda: dt_utc, lambda x: typelib.marshal(x, t=datetime.datetime)),
        op("unmarshal(str,15:00+03)", "equal_instant", lambda: dt_p3, lambda x: typelib.unmarshal(str, x)),
        op("marshal('a',t=Union[int,str])", "union_order", lambda: "a", lambda x: typelib.marshal(x, t=U1)),
        op("marshal('a',t=Union[str,int])", "union_order", lambda: "a", lambda x: typelib.marshal(x, t=U2)),
        # values more than one member accepts: the answer must not depend on which member matched in earlier calls
        op("marshal(5,t=Union[int,str])", "union_order", lambda: 5, lambda x: typelib.marshal(x, t=U1)),
        op("marshal('7',t=Union[int,str])", "union_order", lambda: "7", lambda x: typelib.marshal(x, t=U1)),
        op("unmarshal(Union[int,str],1.5)", "union_order", lambda: 1.5, lambda x: typelib.unmarshal(U1, x)),
        op("unmarshal(dict[str,int],{'a':1})", "numeric_alias", lambda: {"a": 1}, lambda x: typelib.unmarshal(dict[str, int], x)),
        op("unmarshal(dict[str,int],{'a':1.0})", "numeric_alias", lambda: {"a": 1.0}, lambda x: typelib.unmarshal(dict[str, int], x)),
        op("unmarshal(dict[str,int],{'a':True})", "numeric_alias", lambda: {"a": True}, lambda x: typelib.unmarshal(dict[str, int], x)),
        op("unmarshal(float,1)", "numeric_alias", lambda: 1, lambda x: typelib.unmarshal(float, x)),
        op("unmarshal(float,True)", "numeric_alias", lambda: True, lambda x: typelib.unmarshal(float, x)),
        op("unmarshal(int,'1')", "text", lambda: "1", lambda x: typelib.unmarshal(int, x)),
        op("unmarshal(int,b'1')", "text", lambda: b"1", lambda x: typelib.unmarshal(int, x)),
        op("unmarshal(str,b'1')", "text", lambda: b"1", lambda x: typelib.unmarshal(str, x)),
        op("dateparse(datetime 12:00Z)", "equal_instant", lambda: "2020-01-01T12:00:00+00:00", lambda x: serdes.dateparse(x, datetime.datetime)),
        op("dateparse(datetime 15:00+03)", "equal_instant", lambda: "2020-01-01T15:00:00+03:00", lambda x: serdes.dateparse(x, datetime.datetime)),
        op("encode(Bag)", "plain", lambda: M.Bag([1], {"b": 2}, None), lambda x: typelib.encode(x)),
        op("unmarshal(Tree,dict)", "plain", lambda: {"v": 1, "kids": [{"v": 2, "kids": []}]}, lambda x: typelib.unmarshal(M.Tree, x)),
        op("marshal(Tree)", "plain", lambda: M.Tree(1, [M.Tree(2)]), lambda x: typelib.marshal(x)),
        op("unmarshal(list[Point],text)", "text", lambda: '[{"x": 1, "y": 2}]', lambda x: typelib.unmarshal(list[M.Point], x)),
        op("unmarshal(Optional[Point],dict)", "plain", lambda: {"x": "1", "y": 2}, lambda x: typelib.unmarshal(t.Optional[M.Point], x)),
        op("unmarshal(alias(list[int]),[1])", "plain", lambda: ["1"], lambda x: typelib.unmarshal(M.IntList, x)),
        op("unmarshal(NewType(int),'5')", "text", lambda: "5", lambda x: typelib.unmarshal(M.UserId, x)),
        op("isoformat(time 12:00Z)", "equal_instant", lambda: tm_utc, lambda x: serdes.isoformat(x)),
        op("codec(Point).decode", "text", lambda: b'{"x": 1, "y": 2}', lambda x: typelib.codec(M.Point).decode(x)),
        op("codec(Point).encode", "plain", lambda: M.Point(1, 2), lambda x: typelib.codec(M.Point).encode(x)),
        op("build(marshaller(Union[str,int]))", "union_order", lambda: None, lambda x: type(typelib.marshaller(U2)).__name__),
        # per-class field iterators, per-routine key conversion, per-class hint caches
        op("unmarshal(dict[str,int],slots_obj)", "plain", lambda: O.slots_only(1, 9, 2), lambda x: typelib.unmarshal(dict[str, int], x)),
        op("marshal(slots_obj,t=dict[str,int])", "plain", lambda: O.slots_only(5, 9, 6), lambda x: typelib.marshal(x, t=dict[str, int])),
        op("unmarshal(UUID,True)", "numeric_alias", lambda: True, lambda x: typelib.unmarshal(uuid.UUID, x)),
        op("unmarshal(UUID,1.0)", "numeric_alias", lambda: 1.0, lambda x: typelib.unmarshal(uuid.UUID, x)),
        op("unmarshal(UUID,UUID(7))", "numeric_alias", lambda: uuid.UUID(int=7), lambda x: typelib.unmarshal(uuid.UUID, x)),
        op("unmarshal(UUID,TaggedUUID(7))", "numeric_alias", lambda: M.TaggedUUID(int=7), lambda x: typelib.unmarshal(uuid.UUID, x)),
        op("unmarshal(dict[str,int],[(True,'1')])", "numeric_alias", lambda: [(True, "1")], lambda x: typelib.unmarshal(dict[str, int], x)),
        op("unmarshal(dict[str,int],[(1.0,'2')])", "numeric_alias", lambda: [(1.0, "2")], lambda x: typelib.unmarshal(dict[str, int], x)),
        op("marshal({D('1.0'):1},t=dict[Decimal,int])", "numeric_alias", lambda: {decimal.Decimal("1.0"): 1}, lambda x: typelib.marshal(x, t=dict[decimal.Decimal, int])),
        op("marshal({D('1.00'):1},t=dict[Decimal,int])", "numeric_alias", lambda: {decimal.Decimal("1.00"): 1}, lambda x: typelib.marshal(x, t=dict[decimal.Decimal, int])),
        op("unmarshal(dict[tuple[int,int],str],pairs)", "plain", lambda: [([1, 2], "a")], lambda x: typelib.unmarshal(dict[tuple[int, int], str], x)),
        op("marshal(InitOnly)", "plain", lambda: M.InitOnly(1, datetime.date(2020, 1, 2), [3]), lambda x: typelib.marshal(x)),
        op("marshal([InitOnly],t=list[InitOnly])", "plain", lambda: [M.InitOnly(1, datetime.date(2020, 1, 2), [3])], lambda x: typelib.marshal(x, t=list[M.InitOnly])),
        op("unmarshal(InitOnly,dict)", "plain", lambda: {"id": "1", "placed": "2020-01-02", "tags": ["3"]}, lambda x: typelib.unmarshal(M.InitOnly, x)),
        op("unmarshal(Optional[str],'x')", "plain", lambda: "x", lambda x: typelib.unmarshal(t.Optional[str], x)),
        op("unmarshal(Optional[str],None)", "plain", lambda: None, lambda x: typelib.unmarshal(t.Optional[str], x)),
        op("codec(Optional[str]).decode('\"x\"')", "text", lambda: b'"x"', lambda x: typelib.codec(t.Optional[str]).decode(x)),
        op("codec(Optional[str]).decode('null')", "text", lambda: b"null", lambda x: typelib.codec(t.Optional[str]).decode(x)),
        op("unmarshal(Union[int,str],memoryview)", "union_order", lambda: memoryview(b"twelve"), lambda x: typelib.unmarshal(U1, x)),
        # two instants that compare and hash equal: the repeated hour at the end of daylight saving time (fold 0 / 1)
        op("unmarshal(float,01:30 fold=0)", "equal_fold", lambda: _fold(0), lambda x: typelib.unmarshal(float, x)),
        op("unmarshal(float,01:30 fold=1)", "equal_fold", lambda: _fold(1), lambda x: typelib.unmarshal(float, x)),
        op("unmarshal(int,01:30 fold=1)", "equal_fold", lambda: _fold(1), lambda x: typelib.unmarshal(int, x)),
        # one read-only view object over a buffer whose content changes between the calls
        op("unmarshal(list[int],view of '[1, 2, 3]')", "text", lambda: _view(b"[1, 2, 3]"), lambda x: typelib.unmarshal(list[int], x)),
        op("unmarshal(list[int],same view, now '[7, 8, 9]')", "text", lambda: _view(b"[7, 8, 9]"), lambda x: typelib.unmarshal(list[int], x)),
        op("unmarshal(Gain,'0')", "text", lambda: "0", lambda x: typelib.unmarshal(M.Gain, x)),
        # values that are equal but render differently, through one to-string routine
        op("marshal(D('1.10'))", "numeric_alias", lambda: decimal.Decimal("1.10"), lambda x: typelib.marshal(x)),
        op("marshal(D('1.1'))", "numeric_alias", lambda: decimal.Decimal("1.1"), lambda x: typelib.marshal(x)),
        op("marshal(True,t=str)", "numeric_alias", lambda: True, lambda x: typelib.marshal(x, t=str)),
        op("marshal(1,t=str)", "numeric_alias", lambda: 1, lambda x: typelib.marshal(x, t=str)),
        op("marshal([D('1E+2')],t=list[Decimal])", "numeric_alias", lambda: [decimal.Decimal("1E+2")], lambda x: typelib.marshal(x, t=list[decimal.Decimal])),
        op("marshal([D('100')],t=list[Decimal])", "numeric_alias", lambda: [decimal.Decimal("100")], lambda x: typelib.marshal(x, t=list[decimal.Decimal])),
        # a text whose decoded list is longer than the tuple that reads it first
        op("unmarshal(tuple[int,int],'[1, 2, 3]')", "text", lambda: "[1, 2, 3]", lambda x: typelib.unmarshal(tuple[int, int], x)),
        op("unmarshal(list[int],'[1, 2, 3]')", "text", lambda: "[1, 2, 3]", lambda x: typelib.unmarshal(list[int], x)),
        op("strload('[1, 2, 3]')", "text", lambda: "[1, 2, 3]", lambda x: serdes.strload(x)),
        op("unmarshal(Union[int,str],'n/a')", "union_order", lambda: "n/a", lambda x: typelib.unmarshal(U1, x)),
        # annotation objects built on the spot, twice each, and dropped after the call (the address of the second one is reused)
        op("unmarshal(float|str built on the spot,'5')", "plain", lambda: "5", lambda x: (typelib.unmarshal(float | str, x), typelib.unmarshal(float | str, x))[1]),
        op("unmarshal(int|None built on the spot,None)", "plain", lambda: None, lambda x: (typelib.unmarshal(int | None, x), typelib.unmarshal(int | None, x))[1]),
        op("unmarshal(bytes|bool built on the spot,'abc')", "plain", lambda: "abc", lambda x: (typelib.unmarshal(bytes | bool, x), typelib.unmarshal(bytes | bool, x))[1]),
        op("unmarshal(list[float] built on the spot,['1'])", "plain", lambda: ["1"], lambda x: (typelib.unmarshal(list[float], x), typelib.unmarshal(list[float], x))[1]),
        op("unmarshal(dict[str,bool] built on the spot,{'a':1})", "plain", lambda: {"a": 1}, lambda x: (typelib.unmarshal(dict[str, bool], x), typelib.unmarshal(dict[str, bool], x))[1]),
    ]
    return core, pool


SPECIAL = ["<mutate previous result>", "<mutate previous input>", "<clear caches>",
           # one public cache cleared on its own (cache warmth: any subset may be warm)
           "<clear graph.static_order only>", "<clear unmarshaller only>", "<clear marshaller only>"]


def alphabet(seed):
    core, pool = _ops()
    if seed == "full":
        return core + pool
    k = (seed * 4) % len(pool)
    return core + (pool + pool)[k:k + 4]


def outcome(op, x):
    try:
        r = op.run(x)
        return ("ok", canon(r)), r
    except Exception as e:  # noqa: BLE001
        return ("exc", type(e).__name__), None


def cold_outcomes(ops):
    from vlib import caches

    out = {}
    for op in ops:
        caches.clear_all()
        out[op.name] = outcome(op, op.mk_input())[0]
    caches.clear_all()
    return out


def run_sequence(ops, cold, seq, _nested=False):
    """seq: indexes into ops + SPECIAL.  Returns a descriptor or None."""
    from vlib import caches

    caches.clear_all()
    nops = len(ops)
    last_result, last_input = None, None
    seen_containers = []  # containers of earlier results and inputs (kept alive)
    hist = []
    for pos, k in enumerate(seq):
        if k >= nops:
            sp = SPECIAL[k - nops]
            hist.append(sp)
            if sp == "<mutate previous result>":
                if last_result is not None:
                    deep_mutate(last_result)
            elif sp == "<mutate previous input>":
                if last_input is not None:
                    deep_mutate(last_input)
            elif sp == "<clear caches>":
                caches.clear_all(restore=False)  # what a user can do: the functools caches only
            else:
                import typelib as _tl
                from typelib import graph as _g

                {"<clear graph.static_order only>": _g.static_order, "<clear unmarshaller only>": _tl.unmarshaller,
                 "<clear marshaller only>": _tl.marshaller}[sp].cache_clear()
            continue
        op = ops[k]
        hist.append(op.name)
        x = op.mk_input()
        snap = _snapshot(x)
        got, r = outcome(op, x)
        if got != cold[op.name]:
            if not _nested:
                return ("history_dependent:" + _cause(ops, cold, seq, pos), op.name, _d(hist, got, cold[op.name]))
            return ("history_dependent", op.name, "")
        if canon(x) != canon(snap):
            return ("input_mutated", op.name, _d(hist, x, snap))
        mine, ins = [], []
        containers(r, mine)
        containers(x, ins)
        for c in mine:
            if any(c is d for d in ins):
                return ("result_shares_container_with_input", op.name, _d(hist))
            if any(c is d for d in seen_containers):
                return ("result_shares_container_with_earlier_call", op.name, _d(hist))
        seen_containers.extend(mine)
        seen_containers.extend(ins)
        last_result, last_input = r, x
    return None


def _cause(ops, cold, seq, pos):
    """Identity of a history dependence: the latest earlier operation whose removal makes it vanish."""
    nops = len(ops)
    target = ops[seq[pos]]
    for j in range(pos - 1, -1, -1):
        if seq[j] >= nops:  # a special step may occur several times in a row: all of its occurrences are removed together
            shorter = [q for i, q in enumerate(seq[:pos]) if q != seq[j]] + [seq[pos]]
        else:
            shorter = seq[:j] + seq[j + 1:pos + 1]
        r = run_sequence(ops, cold, shorter, _nested=True)
        if r is None or r[1] != target.name or not r[0].startswith("history_dependent"):
            k = seq[j]
            if k >= nops:
                sp = SPECIAL[k - nops]
                prev = [ops[q].name for q in seq[:j] if q < nops]
                victim = prev[-1] if prev else "?"
                what = {"<mutate previous result>": "mutated_result_of", "<mutate previous input>": "mutated_input_of",
                        "<clear caches>": "cache_clear_after"}.get(sp, "partial_cache_clear_after")
                return f"{what}:{victim}"
            culprit = ops[k]
            if culprit.klass == target.klass and culprit.variant != target.variant and target.klass in ("equal_instant", "union_order", "numeric_alias", "string_ref", "equal_fold"):
                return "after_equal_but_distinct:" + target.klass
            return "after:" + culprit.name
    if target.klass in ("equal_instant", "union_order", "numeric_alias", "string_ref", "equal_fold") and any(
            q < nops and ops[q].klass == target.klass and ops[q].variant != target.variant for q in seq[:pos]):
        return "after_equal_but_distinct:" + target.klass  # several earlier calls each suffice
    return "unexplained"


_CACHE = {}


def _setup(seed):
    if seed not in _CACHE:
        ops = alphabet(seed)
        _CACHE[seed] = (ops, cold_outcomes(ops))
    return _CACHE[seed]


def make(first, length, seed, timeout):
    def body(**p):
        ch = Chooser([p[f"c{i}"] for i in range(length)])
        with NoTracing():
            ops, cold = _setup(seed)
            n = len(ops) + len(SPECIAL)
            ln = 1 + ch.pick(length)
            seq = [first]
            for _ in range(ln - 1):
                seq.append(ch.pick(n))
            reached()
            return run_sequence(ops, cold, seq)

    ops = alphabet(seed)
    nm = (ops[first].name if first < len(ops) else SPECIAL[first - len(ops)])
    if seed == "full":
        return Cond(f"pair/{first:02d}:{nm}", [(f"c{i}", int) for i in range(length)], body, mode="E3", timeout=timeout)
    return Cond(f"seq/s{seed % 8}/{first:02d}:{nm}", [(f"c{i}", int) for i in range(length)], body, mode="E3", timeout=timeout)


def make_fresh(timeout):
    """Annotation objects built on the spot: equal annotations are interchangeable and a dropped annotation object
    leaves nothing behind that a later, different annotation could pick up (its address is reused by the allocator)."""
    import typelib

    factories = [
        ("float|str", lambda: float | str, "5"), ("int|None", lambda: int | None, None), ("bytes|bool", lambda: bytes | bool, "abc"),
        ("list[float]", lambda: list[float], ["1"]), ("dict[str,bool]", lambda: dict[str, bool], {"a": 1}),
        ("str|None", lambda: str | None, None), ("tuple[int,str]", lambda: tuple[int, str], ["1", 2]), ("set[str]", lambda: set[str], [1]),
        ("Optional[bytes]", lambda: t.Optional[bytes], "x"), ("frozenset[int]", lambda: frozenset[int], ["2"]),
    ]

    def body(c0: int, c1: int, c2: int):
        from vlib import caches

        ch = Chooser((c0, c1, c2))
        with NoTracing():
            caches.clear_all()
            ia, ib = ch.pick(len(factories)), ch.pick(len(factories))
            reps = 1 + ch.pick(3)
            reached()
            if ia == ib:
                return None
            na, fa, xa = factories[ia]
            nb, fb, xb = factories[ib]
            keep = fb()
            want = outcome(Op("", "", None, lambda x: typelib.unmarshaller(keep)(x)), xb)[0]
            for _ in range(reps):
                try:
                    typelib.unmarshal(fa(), xa)
                except Exception:  # noqa: BLE001, S110
                    pass
            got = outcome(Op("", "", None, lambda x: typelib.unmarshal(fb(), x)), xb)[0]
            if got != want:
                return ("history_dependent:annotation_built_on_the_spot", f"{nb} after {na}", _d(reps, got, want))
            got2 = outcome(Op("", "", None, lambda x: typelib.marshal(x, t=fb())), xb)[0]
            want2 = outcome(Op("", "", None, lambda x: typelib.marshaller(keep)(x)), xb)[0]
            if got2 != want2:
                return ("history_dependent:annotation_built_on_the_spot", f"marshal {nb} after {na}", _d(reps, got2, want2))
        return None

    return Cond("fresh/annotation_objects", [("c0", int), ("c1", int), ("c2", int)], body, mode="E3", timeout=timeout)


def conditions(tier, seed):
    to = 40.0 if tier == "quick" else 240.0
    length = 3 if tier == "quick" else 4
    seeds = [seed % 8] if tier == "quick" else [seed % 8, (seed + 4) % 8]
    out = []
    for sd in seeds:
        n = len(alphabet(sd)) + len(SPECIAL)
        for first in range(n):
            out.append(make(first, length, sd, to))
    # every ordered pair over the *whole* alphabet (fixed + all rotated instances): most history defects need two calls
    n = len(alphabet("full")) + len(SPECIAL)
    for first in range(n):
        out.append(make(first, 2, "full", to))
    out.append(make_fresh(to))
    return out
