"""C05 - nested members are converted by their own type's rules (DESIGN 4, C05).

Differential, both sides real: the composite routine against the composite rebuilt from the results of
the member routines obtained *independently* (unmarshaller(A_i) / marshaller(A_i) for each member
annotation A_i), with exception parity."""
from __future__ import annotations

import json
import typing as t

from vlib import universe
from vlib.cond import Cond
from vlib.fixtures import mod_a, mod_b, naming
from vlib.fixtures import models as M
from vlib.prelude import SYMBOLIC, Chooser, NoTracing, attempt, deep_realize, pick, reached
from vlib.shapes import (Bool, DictOf, FixedTuple, Int, JVal, ListOf, Map, Opt, Seq, Src, Str, Struct, Wrapped,
                         params_for)

META = {
    "functions": ["typelib.unmarshals.api.unmarshaller/_get_unmarshaller", "typelib.marshals.api.marshaller",
                  "typelib.graph.static_order", "typelib.ctx.TypeContext", "typelib.unmarshals.routines.Subscripted*/FixedTuple/StructuredType",
                  "typelib.marshals.routines.Subscripted*/FixedTuple/StructuredType", "typelib.serdes.iteritems/itervalues"],
    "bounds": {
        "quick": "composites of the catalogue core + adversarial-naming fixtures (same class names in two modules, same field names "
                 "with different types, diamond sharing, alias members); member inputs: J depth 0 reduced leaf set (None, True, int[-1,1], "
                 "1.5, 'a'/'1'/'[1]'), containers len<=2; sources: mapping / list of pairs / tuple of pairs / JSON text / sibling class; 20 s",
        "thorough": "all composites depth<=3; member inputs J depth 1; 120 s",
    },
    "assumptions": ["a composite whose constructor needs every field is compared only on skeletons that supply every field"],
}


def _um(T):
    from typelib import unmarshals

    with NoTracing():
        return unmarshals.unmarshaller(T)


def _mm(T):
    from typelib import marshals

    with NoTracing():
        return marshals.marshaller(T)


def _d(*xs):
    return "" if SYMBOLIC else " | ".join(repr(x)[:200] for x in xs)


_PLAIN = (type(None), bool, int, float, str, bytes)


def deep_same(a, b, depth=0):
    ta, tb = type(a), type(b)
    if ta is not tb:
        return False
    if ta in (list, tuple):
        if len(a) != len(b):
            return False
        for x, y in zip(a, b):
            if not deep_same(x, y, depth + 1):
                return False
        return True
    if ta is dict:
        if len(a) != len(b):
            return False
        for k, x in a.items():
            if k not in b or not deep_same(x, b[k], depth + 1):
                return False
        return True
    if ta in _PLAIN or ta in (set, frozenset):
        return a == b
    if hasattr(a, "__dataclass_fields__"):
        for f in a.__dataclass_fields__:
            if not deep_same(getattr(a, f), getattr(b, f), depth + 1):
                return False
        return True
    ra, rb = deep_realize(a), deep_realize(b)
    with NoTracing():
        return type(ra) is type(rb) and ra == rb


# ---- naming fixtures as shapes -----------------------------------------------------------------------
def AItem(): return Struct(mod_a.Item, {"id": Int(), "tag": Str()}, name="a.Item")
def BItem(): return Struct(mod_b.Item, {"id": Str(), "tag": Int()}, name="b.Item")
def AShared(): return Struct(mod_a.Shared, {"v": Int()}, name="a.Shared")
def BShared(): return Struct(mod_b.Shared, {"v": Str()}, name="b.Shared")
def ARec(): return Struct(mod_a.Rec, {"id": Int(), "tag": Str()}, name="a.Rec")
def BRec(): return Struct(mod_b.Rec, {"id": Str(), "tag": Int()}, kind="typeddict", name="b.Rec")


def JobOptions(): return Struct(naming.Job.Options, {"level": Int()}, name="Job.Options")


def naming_shapes():
    left = Struct(naming.Left, {"s": AShared(), "id": Str()})
    right = Struct(naming.Right, {"s": AShared(), "id": Int()})
    return [
        Struct(naming.Holder, {"a": AItem(), "b": BItem()}),
        Struct(naming.Top, {"l": left, "r": right, "id": Bool()}),
        Struct(naming.Parent, {"intersection": Int(), "child": Struct(naming.Child, {"intersection": Str()})}),
        Struct(naming.Both, {"sa": AShared(), "sb": BShared(), "items": ListOf(BItem(), 1), "by_name": DictOf(Str(), AItem(), 1)}),
        Struct(naming.Aliased, {"x": Wrapped(mod_a.ItemAlias, AItem(), "alias(a.Item)"), "y": BItem(),
                                "recs": FixedTuple(ARec(), BRec())}),
        Struct(naming.Twice, {"p": AItem(), "q": Opt(AItem()), "r": ListOf(AItem(), 1)}),
        Struct(naming.Pipeline, {"first": Struct(naming.Stage, {"opts": JobOptions()}), "opts": JobOptions()}),
        Struct(naming.Pipeline2, {"opts": JobOptions(), "first": Struct(naming.Stage, {"opts": JobOptions()}),
                                  "plain": Struct(naming.Options, {"level": Str()}, name="Options")}),
        Struct(naming.Job, {"opts": JobOptions()}),
        ListOf(Struct(naming.Holder, {"a": AItem(), "b": BItem()}), 1),
        DictOf(Str(), BItem(), 1),
        FixedTuple(AItem(), BItem(), AShared(), BShared()),
    ]


def members(shape):
    """[(label, member shape)] of a composite shape, or None."""
    if isinstance(shape, Wrapped):
        return members(shape.inner)
    if isinstance(shape, Struct):
        return list(shape.fields.items())
    if isinstance(shape, FixedTuple):
        return [(i, e) for i, e in enumerate(shape.elems)]
    if isinstance(shape, Map):
        return [("key", shape.key), ("val", shape.val)]
    if isinstance(shape, Seq):
        return [("elem", shape.elem)]
    return None


def _cyclic_member(shape):
    """True when some member annotation is a subscripted generic that leads back to the class itself
    (list['Tree'] in Tree, Optional['Chain'] in Chain): the routine obtained for such a member *as a root*
    is the subject of known finding KF07."""
    for _, ms in members(shape) or ():
        d = ms.__dict__
        for k in ("elem", "val", "inner"):
            if k in d and type(d[k]).__name__ == "Lazy":
                return True
    return False


def _core(shape):
    return shape.inner if isinstance(shape, Wrapped) else shape


# ---- unmarshal: composite vs member-wise --------------------------------------------------------------
def make_u(shape, jdepth, timeout):
    site = shape.name
    core = _core(shape)
    mem = members(shape)
    try:
        UT = _um(shape.T)
        UM = [(lab, _um(ms.T)) for lab, ms in mem]
        err = None
    except Exception as e:  # noqa: BLE001
        UT, UM, err = None, None, type(e).__name__
    cyc = ":cyclic_subscripted_root" if _cyclic_member(shape) else ""
    J = JVal(jdepth, small_inner=True)
    n_members = len(mem) if isinstance(core, (Struct, FixedTuple)) else 2
    pool = 2 + n_members * JVal.pool(jdepth) + (2 if isinstance(core, Map) else 0)

    def body(**p):
        if err is not None:
            reached()
            return ("build_failed", site, err)
        src = Src(p)
        if isinstance(core, Struct):
            xs = [J.build(src, jdepth, True) for _ in mem]
            x = {lab: xi for (lab, _), xi in zip(mem, xs)}
            parts = [attempt(um, xi) for (_, um), xi in zip(UM, xs)]
            okc, rc = attempt(UT, x)
            reached()
            if all(ok for ok, _ in parts):
                exp_ok, exp = attempt(lambda: core.cls(**{lab: r for (lab, _), (_, r) in zip(mem, parts)}))
            else:
                exp_ok, exp = False, None
        elif isinstance(core, FixedTuple):
            xs = [J.build(src, jdepth, True) for _ in mem]
            x = list(xs)
            parts = [attempt(um, xi) for (_, um), xi in zip(UM, xs)]
            okc, rc = attempt(UT, x)
            reached()
            exp_ok = all(ok for ok, _ in parts)
            exp = tuple(r for _, r in parts) if exp_ok else None
        elif isinstance(core, Map):
            n = src.int(0, 2)
            keys = ["a", "1", "x"]
            items = []
            for i in range(2):
                if i < n:
                    items.append((pick(src.sel(3), keys), J.build(src, jdepth, True)))
            x = dict(items)
            uk, uv = UM[0][1], UM[1][1]
            parts = []
            for k, v in x.items():
                parts.append(attempt(uk, k))
                parts.append(attempt(uv, v))
            okc, rc = attempt(UT, x)
            reached()
            exp_ok = all(ok for ok, _ in parts)
            if exp_ok:
                exp_ok, exp = attempt(lambda: core.ctor([(parts[2 * i][1], parts[2 * i + 1][1]) for i in range(len(parts) // 2)]))
            else:
                exp = None
        else:  # Seq
            n = src.int(0, 2)
            x = []
            for i in range(2):
                if i < n:
                    x.append(J.build(src, jdepth, True))
            ue = UM[0][1]
            parts = [attempt(ue, xi) for xi in x]
            okc, rc = attempt(UT, x)
            reached()
            exp_ok = all(ok for ok, _ in parts)
            if exp_ok:
                exp_ok, exp = attempt(lambda: core.ctor([r for _, r in parts]))
            else:
                exp = None
        if okc != exp_ok:
            return ("exception_parity" + cyc, site, _d(x, okc, rc, exp_ok, exp))
        if okc and not deep_same(rc, exp):
            return ("member_routed_differently" + cyc, site, _d(x, rc, exp))
        return None

    return Cond(f"u/{site}", [(f"i{j}", int) for j in range(pool)], body, mode="E1", timeout=timeout)


# ---- marshal: composite vs member-wise ----------------------------------------------------------------
def make_m(shape, timeout):
    site = shape.name
    core = _core(shape)
    mem = members(shape)
    try:
        MT = _mm(shape.T)
        MM = [(lab, _mm(ms.T)) for lab, ms in mem]
        err = None
    except Exception as e:  # noqa: BLE001
        MT, MM, err = None, None, type(e).__name__
    cyc = ":cyclic_subscripted_root" if _cyclic_member(shape) else ""

    def body(**p):
        if err is not None:
            reached()
            return ("build_failed", site, err)
        v = shape.build(Src(p))
        okc, mc = attempt(MT, v)
        reached()
        if isinstance(core, Struct):
            parts = [attempt(mm, core.get(v, lab)) for lab, mm in MM if core.has(v, lab)]
            labs = [lab for lab, _ in MM if core.has(v, lab)]
            exp = {lab: r for lab, (_, r) in zip(labs, parts)}
        elif isinstance(core, FixedTuple):
            parts = [attempt(mm, x) for (_, mm), x in zip(MM, v)]
            exp = [r for _, r in parts]
        elif isinstance(core, Map):
            parts, exp = [], []
            for k, x in v.items():
                a, b = attempt(MM[0][1], k), attempt(MM[1][1], x)
                parts += [a, b]
                exp.append((a[1], b[1]))
            if okc and type(mc) is dict:
                mc = [(k, x) for k, x in mc.items()]  # compared as an item list: no hashing of symbolic keys
        else:
            parts = [attempt(MM[0][1], x) for x in v]
            exp = [r for _, r in parts]
        exp_ok = all(ok for ok, _ in parts)
        if okc != exp_ok:
            return ("exception_parity" + cyc, site, _d(v, okc, mc, exp_ok))
        if okc and not deep_same(mc, exp):
            return ("member_routed_differently" + cyc, site, _d(v, mc, exp))
        return None

    return Cond(f"m/{site}", params_for(shape), body, mode="E1" if shape.transparent else "E1+picks", timeout=timeout)


# ---- structured sources in every documented shape -----------------------------------------------------
def make_src(shape, timeout):
    site = shape.name
    core = _core(shape)
    mem = members(shape)
    try:
        UT, err = _um(shape.T), None
    except Exception as e:  # noqa: BLE001
        UT, err = None, type(e).__name__
    J = JVal(0, small_inner=True)
    Sibling = type("Sibling_" + core.cls.__name__, (), {"__annotations__": {lab: object for lab, _ in mem} | {"zz_extra": int}})

    def body(**p):
        if err is not None:
            reached()
            return ("build_failed", site, err)
        src = Src(p)
        kind = src.sel(5)
        xs = [J.build(src, 0, True) for _ in mem]
        d = {lab: xi for (lab, _), xi in zip(mem, xs)}
        ok0, r0 = attempt(UT, d)
        if kind == 0:
            x = [[k, v] for k, v in d.items()]
        elif kind == 1:
            x = tuple((k, v) for k, v in d.items())
        elif kind == 2:
            rd = deep_realize(d)
            with NoTracing():
                x = json.dumps(rd)
        elif kind == 3:
            x = Sibling()
            for k, v in d.items():
                setattr(x, k, v)
            x.zz_extra = 7
        else:
            x = iter([(k, v) for k, v in d.items()])
        ok1, r1 = attempt(UT, x)
        reached()
        knd = ("pairs_list", "pairs_tuple", "json_text", "sibling_instance", "pairs_iterator")[kind]
        if ok0 != ok1:
            return ("source_shape_parity:" + knd, site, _d(d, ok0, r0, ok1, r1))
        if ok0 and not deep_same(r0, r1):
            return ("source_shape_differs:" + knd, site, _d(d, r0, r1))
        return None

    return Cond(f"src/{site}", [(f"i{j}", int) for j in range(2 + 2 * len(mem))], body, mode="E1", timeout=timeout)


def _composites(tier, seed):
    base = [s for s in universe.select(tier, seed) if members(s) is not None]
    out, seen = [], set()
    for s in base + naming_shapes():
        if s.name in seen:
            continue
        seen.add(s.name)
        out.append(s)
    return out


class _KeyNT(t.NamedTuple):
    a: int
    b: str


def make_keys(timeout):
    """Mapping keys are converted by the key type's own routine - on every call of a long-lived routine: raw keys that are
    equal but distinct (True / 1 / 1.0, 0.0 / -0.0, Decimal('1.0') / Decimal('1.00')) in consecutive calls, and composite
    key types whose raw form (a list / dict from a pairs source) is not hashable."""
    import decimal

    from typelib import marshals, unmarshals

    D = decimal.Decimal
    raw_pairs = [(True, 1.0), (1.0, True), (1, True), (True, 1), (0.0, -0.0), (-0.0, 0.0), (D("1.0"), D("1.00")), (D("1.00"), D("1.0")), (1, 1.0)]
    u_targets = [dict[str, int], dict[float, int], dict[D, int], t.Mapping[str, int]]
    m_targets = [dict[D, int], dict[float, int], t.Mapping[D, int]]
    composite = [(dict[tuple[int, int], str], [([1, "2"], "a")]), (dict[frozenset[int], int], [([1, 2], "1")]),
                 (dict[_KeyNT, int], [({"a": "1", "b": 2}, 3)]), (dict[tuple[int, ...], int], [(["1", 2, 3], 4)])]

    def body(c0: int, c1: int, c2: int):
        from vlib import caches

        ch = Chooser((c0, c1, c2))
        with NoTracing():
            caches.clear_all()
            mode = ch.pick(3)
            reached()
            if mode == 2:
                T, src = ch.choose(composite)
                KT, VT = t.get_args(T)
                got = attempt(unmarshals.unmarshaller(T), src)
                want = attempt(lambda: {unmarshals.unmarshaller(KT)(k): unmarshals.unmarshaller(VT)(v) for k, v in src})
                if got[0] != want[0] or (got[0] and not deep_same(got[1], want[1])):
                    return ("composite_key_routed_differently", "keys:unmarshal", _d(T, src, got, want))
                return None
            a, b = ch.choose(raw_pairs)
            if mode == 0:
                T = ch.choose(u_targets)
                KT, VT = t.get_args(T)
                R = unmarshals.unmarshaller(T)
                attempt(R, [(a, "1")])
                got = attempt(R, [(b, "2")])
                want = attempt(lambda: {unmarshals.unmarshaller(KT)(b): unmarshals.unmarshaller(VT)("2")})
            else:
                T = ch.choose(m_targets)
                KT, VT = t.get_args(T)
                ok_a, ka = attempt(KT, a)
                ok_b, kb = attempt(KT, b)
                if not (ok_a and ok_b):
                    return None
                R = marshals.marshaller(T)
                attempt(R, {ka: 1})
                got = attempt(R, {kb: 2})
                want = attempt(lambda: {marshals.marshaller(KT)(kb): 2})
            if got[0] != want[0] or (got[0] and not (deep_same(got[1], want[1]) and [repr(k) for k in got[1]] == [repr(k) for k in want[1]])):
                return ("equal_key_served_from_earlier_call", "keys:" + ("unmarshal" if mode == 0 else "marshal"), _d(T, a, b, got, want))
        return None

    return Cond("keys/equal_but_distinct", [("c0", int), ("c1", int), ("c2", int)], body, mode="E3", timeout=timeout)


def make_deepwire(shape, timeout):
    """"At every nesting depth": the wire form of a valid value of a recursive composite, nested two levels, comes back
    converted at every level (the reference is the value itself: each leaf converted by its leaf routine)."""
    site = shape.name
    try:
        UT, MT, err = _um(shape.T), _mm(shape.T), None
    except Exception as e:  # noqa: BLE001
        UT = MT = None
        err = type(e).__name__

    def body(**p):
        if err is not None:
            reached()
            return ("build_failed", site, err)
        v = shape.build(Src(p, narrow=True))
        ok, m = attempt(MT, v)
        if not ok:
            return None
        ok, r = attempt(UT, m)
        reached()
        if not ok:
            return ("nested_member_rejected", site, _d(v, m, r))
        w = shape.conforms(r)
        if w is not None:
            return ("nested_member_not_converted:" + str(w)[:40], site, _d(v, m, r))
        if not shape.same(v, r):
            return ("nested_member_routed_differently", site, _d(v, m, r))
        return None

    from vlib.shapes import params_for

    return Cond(f"deepwire/{site}", params_for(shape), body, mode="E1", timeout=timeout)


def make_hints_history(timeout):
    """The member routines of a class are the same whichever routine of that class was built (and used) first: a plain
    class whose hints come from the string annotations of its constructor, first marshalled / unmarshalled, then reached
    through a newly built composite."""
    import datetime

    from typelib import marshals, unmarshals

    I = M.InitOnly
    wire = {"id": "1", "placed": "2020-01-02", "tags": ["3"]}
    inst = lambda: I(1, datetime.date(2020, 1, 2), [3])  # noqa: E731
    plain = {"id": 1, "placed": "2020-01-02", "tags": [3]}
    firsts = [lambda: marshals.marshaller(I)(inst()), lambda: unmarshals.unmarshaller(I)(wire), lambda: None]
    follow = [
        ("unmarshal(list[I])", lambda: unmarshals.unmarshaller(list[I])([wire]), lambda: [inst()]),
        ("unmarshal(dict[str,I])", lambda: unmarshals.unmarshaller(dict[str, I])({"k": wire}), lambda: {"k": inst()}),
        ("unmarshal(I)", lambda: unmarshals.unmarshaller(I)(wire), inst),
        ("marshal(list[I])", lambda: marshals.marshaller(list[I])([inst()]), lambda: [plain]),
        ("marshal(tuple[I,int])", lambda: marshals.marshaller(tuple[I, int])((inst(), 1)), lambda: [plain, 1]),
        ("marshal(I)", lambda: marshals.marshaller(I)(inst()), lambda: plain),
    ]

    def body(c0: int, c1: int, c2: int, c3: int):
        from vlib import caches

        ch = Chooser((c0, c1, c2, c3))
        with NoTracing():
            caches.clear_all()
            for _ in range(1 + ch.pick(2)):
                attempt(ch.choose(firsts))
            name, fn, want = ch.choose(follow)
            got = attempt(fn)
            reached()
            if not got[0]:
                return ("member_routine_lost_after_history:" + type(got[1]).__name__, name, _d(got[1]))
            if not deep_same(got[1], want()):
                return ("member_routed_differently_after_history", name, _d(got[1], want()))
        return None

    return Cond("hints/after_first_use", [("c0", int), ("c1", int), ("c2", int), ("c3", int)], body, mode="E3", timeout=timeout)


def conditions(tier, seed):
    to = 20.0 if tier == "quick" else 120.0
    jd = 0 if tier == "quick" else 1
    comps = _composites(tier, seed)
    out = [make_u(s, jd, to) for s in comps]
    out += [make_m(s, to) for s in comps]
    out += [make_src(s, to) for s in comps if isinstance(_core(s), Struct) and _core(s).kind != "typeddict"
            and len(members(s)) <= 4]
    out.append(make_keys(to))
    out.append(make_hints_history(to))
    out += [make_deepwire(s, to) for s in universe.recursive(2)]
    return out
