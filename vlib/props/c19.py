"""C19 - slotted dataclasses behave like the original dataclass (DESIGN 4, C19).

E3: the class definition (fields, defaults, dataclass flags, base, (dict, weakref) flags, user
__getstate__) and the decoration history are chosen by choice variables; classes are built natively per
assignment.  Instance behaviour is compared between C(...) and slotted(C)(...)."""
from __future__ import annotations

import copy
import dataclasses
import pickle
import sys
import types
import warnings
import weakref as _weakref

from vlib.cond import Cond
from vlib.prelude import SYMBOLIC, Chooser, NoTracing, attempt, reached

META = {
    "functions": ["typelib.py.classes.slotted", "typelib.py.classes.slotted.<locals>.wrap", "typelib.py.classes._stack"],
    "bounds": {
        "quick": "dataclasses with 0-3 fields (no default / default / default_factory), flags frozen, eq, order, unsafe_hash, bases "
                 "{none, unslotted dataclass, slotted dataclass, slotted with weakref, slotted parent over an unslotted grandparent}, user __getstate__ / __setstate__ (none, both, either one alone), the four "
                 "(dict, weakref) combinations - every combination (choice variables, exhaustively enumerated); decoration histories "
                 "of 1-3 classes over {valid dataclass, same-named frozen dataclass, non-dataclass (fails), same-named subclass of an unslotted dataclass, other name, a class whose re-creation decorates another class with a similar long name (nested decoration)}; "
                 "every returned class is checked to be built from the class passed in (fields, frozen, order, name, slots); "
                 "user members (method, classmethod, staticmethod, property, zero-argument super() in a method / __post_init__ / __init_subclass__, subclassing the result) x frozen x mixin base x weakref",
        "thorough": "0-4 fields, histories of 1-4 classes",
    },
    "assumptions": ["field values are fixed distinct ints; two instances per class (equal / differing in the last field)",
                    "pickling looks the class up by module + qualified name: the synthetic module attribute is rebound to the class under test"],
}

MOD = types.ModuleType("vlib_c19_synth")
sys.modules["vlib_c19_synth"] = MOD


def _d(*xs):
    return "" if SYMBOLIC else " | ".join(repr(x)[:200] for x in xs)


def _slotted(cls, **kw):
    from typelib.py import classes

    with warnings.catch_warnings():
        warnings.simplefilter("ignore")
        return classes.slotted(cls, **kw)


def _mk(name, fields, bases=(), **flags):
    c = dataclasses.make_dataclass(name, fields, bases=bases, namespace={"__module__": MOD.__name__}, **flags)
    c.__module__ = MOD.__name__
    c.__qualname__ = name
    return c


def _getstate(self):
    return {f.name: getattr(self, f.name) for f in dataclasses.fields(self)}


def _setstate(self, st):
    """A user hook with a visible effect (ints come back +100), tolerant of both default state forms."""
    if isinstance(st, tuple):  # object.__getstate__ of a slotted instance: (dict or None, slots dict)
        st = {**(st[0] or {}), **(st[1] or {})}
    for k, v in st.items():
        object.__setattr__(self, k, v + 100 if type(v) is int else v)


def build(ch: Chooser, max_fields, basek, d, w):
    """-> (C, slotted C, description, expected slot names, flags)"""
    nf = ch.pick(max_fields + 1)
    frozen, eq = ch.flag(), ch.flag()
    order = eq and ch.flag()
    unsafe_hash = ch.flag()
    # 0 none, 1 both hooks, 2 only __setstate__, 3 only __getstate__ (returning a mapping of the fields)
    user_state = ch.pick(4)
    kinds = []
    seen_default = basek != 0  # the base's field has a default, so ours must too
    for i in range(nf):
        k = ch.pick(3)
        if seen_default and k == 0:
            k = 1
        if k:
            seen_default = True
        kinds.append(k)
    fields = []
    for i, k in enumerate(kinds):
        nm = "xyzw"[i]
        if k == 0:
            fields.append((nm, int))
        elif k == 1:
            fields.append((nm, int, dataclasses.field(default=10 + i)))
        else:
            fields.append((nm, list, dataclasses.field(default_factory=list)))
    base = None
    if basek:
        base = _mk("Base", [("b", int, dataclasses.field(default=7))], frozen=frozen, eq=eq, order=order)
        if basek in (2, 3):
            base = _slotted(base, dict=False, weakref=(basek == 3))
        if basek == 4:  # unslotted grandparent behind a slotted parent
            ground = _mk("Ground", [("g", int, dataclasses.field(default=1))], frozen=frozen, eq=eq, order=order)
            mid = _mk("Base", [("b", int, dataclasses.field(default=7))], bases=(ground,), frozen=frozen, eq=eq, order=order)
            base = _slotted(mid, dict=False, weakref=False)
    flags = dict(frozen=frozen, eq=eq, order=order, unsafe_hash=unsafe_hash)
    ns = {}
    C = _mk("C", fields, bases=(base,) if base else (), **flags)
    if user_state in (1, 3):
        C.__getstate__ = _getstate
    if user_state in (1, 2):
        C.__setstate__ = _setstate
    desc = dict(nf=nf, kinds=kinds, base=basek, dict=d, weakref=w, user_state=user_state, **flags)
    return C, base, desc, (d, w)


def compare(C, S, base, desc, dw):
    d, w = dw
    own = [f.name for f in dataclasses.fields(C) if f.name not in ("b", "g") or base is None]
    # ---- shape of the class ------------------------------------------------------------------------
    # (dataclasses' own slots=True semantics: one slot per field that is not already a slot of a base;
    #  a base without __slots__ provides __dict__ and __weakref__)
    inherited = set()
    for k in S.__mro__[1:-1]:
        if "__slots__" in vars(k):
            inherited |= set(k.__slots__)
        else:
            inherited |= {"__dict__", "__weakref__"}
    exp_slots = [f.name for f in dataclasses.fields(C) if f.name not in inherited]
    if d and "__dict__" not in inherited:
        exp_slots.append("__dict__")
    if w and "__weakref__" not in inherited:
        exp_slots.append("__weakref__")
    if list(S.__slots__) != exp_slots:
        return ("slots_wrong", "slots", _d(desc, S.__slots__, exp_slots))
    if S.__qualname__ != C.__qualname__ or S.__module__ != C.__module__ or S.__name__ != C.__name__:
        return ("identity_not_preserved", "names", _d(desc))
    # ---- instances -----------------------------------------------------------------------------------
    nreq = sum(1 for k in desc["kinds"] if k == 0)
    args1 = [1 + i for i in range(nreq)]
    args2 = list(args1)
    kw2 = {}
    if args2:
        args2[-1] += 5
    elif own:
        kw2 = {own[-1]: 99} if desc["kinds"][-1] == 1 else {own[-1]: [9]}
    try:
        c1, c1b, c2 = C(*args1), C(*args1), C(*args2, **kw2)
        s1, s1b, s2 = S(*args1), S(*args1), S(*args2, **kw2)
    except Exception as e:  # noqa: BLE001
        return ("construction_differs:" + type(e).__name__, "init", _d(desc, e))
    has_dict_base = base is not None and desc["base"] in (1, 4)
    if hasattr(s1, "__dict__") != (d or has_dict_base):
        return ("instance_dict_presence", "slots", _d(desc, hasattr(s1, "__dict__")))
    for f in dataclasses.fields(C):
        if getattr(c1, f.name) != getattr(s1, f.name):
            return ("field_value_differs", "init", _d(desc, f.name))
    if repr(c1) != repr(s1):
        return ("repr_differs", "repr", _d(desc, repr(c1), repr(s1)))
    if (c1 == c1b) != (s1 == s1b) or (c1 == c2) != (s1 == s2):
        return ("eq_differs", "eq", _d(desc))
    if desc["order"]:
        if (c1 < c2) != (s1 < s2) or (c2 <= c1) != (s2 <= s1):
            return ("order_differs", "order", _d(desc))
    else:
        try:
            s1 < s2
            return ("order_defined_unexpectedly", "order", _d(desc))
        except TypeError:
            pass

    def hashes(a, b):
        try:
            return ("ok", hash(a) == hash(b))
        except TypeError:
            return ("unhashable", None)

    if hashes(c1, c1b) != hashes(s1, s1b):
        return ("hash_differs", "hash", _d(desc, hashes(c1, c1b), hashes(s1, s1b)))
    # frozen-ness
    def settable(o):
        if not own:
            return None
        try:
            setattr(o, own[0], 123)
            return True
        except dataclasses.FrozenInstanceError:
            return False
        except Exception as e:  # noqa: BLE001
            return type(e).__name__
    c3, s3 = C(*args1), S(*args1)
    if settable(c3) != settable(s3):
        return ("frozen_differs", "frozen", _d(desc, settable(C(*args1)), settable(S(*args1))))
    if not (d or has_dict_base):
        try:
            object.__setattr__(s3, "not_a_field", 1)
            return ("arbitrary_attribute_accepted", "slots", _d(desc))
        except AttributeError:
            pass
    # copy / deepcopy
    for fn in (copy.copy, copy.deepcopy):
        def tried(o):
            try:
                return ("ok", repr(fn(o)), type(fn(o)).__name__)
            except Exception as e:  # noqa: BLE001
                return ("raised", type(e).__name__)
        cc, sc = tried(c2), tried(s2)
        # a class whose own instances cannot be copied (a lone __getstate__ below a slotted base) gives no behaviour to preserve
        if cc != sc and not (cc[0] == "raised" and sc[0] == "ok"):
            return ("copy_differs", "copy", _d(desc, cc, sc))
    # pickle (class looked up by module.qualname)
    def rt(cls, obj):
        setattr(MOD, "C", cls)
        try:
            return ("ok", repr(pickle.loads(pickle.dumps(obj))))
        except Exception as e:  # noqa: BLE001
            return ("raised", type(e).__name__)
    if base is not None:
        setattr(MOD, "Base", base)
    pc, ps = rt(C, c2), rt(S, s2)
    if pc != ps and not (pc[0] == "raised" and ps[0] == "ok"):
        return ("pickle_differs", "pickle", _d(desc, pc, ps))
    # weakref
    can = True
    try:
        _weakref.ref(s1)
    except TypeError:
        can = False
    exp_can = w or "__weakref__" in inherited or has_dict_base
    if can != exp_can:
        return ("weakref_support", "weakref", _d(desc, can, exp_can))
    return None


def make_def(basek, d, w, timeout, max_fields):
    def body(**p):
        ch0 = Chooser([p[f"c{i}"] for i in range(14)])

        class Fixed(Chooser):
            pass

        with NoTracing():
            # the base kind is fixed per condition (partition of the space); everything else is chosen
            seq = iter([None])
            C, base, desc, dw = build(ch0, max_fields, basek, d, w)
            try:
                S = _slotted(C, dict=dw[0], weakref=dw[1])
            except Exception as e:  # noqa: BLE001
                reached()
                return ("decoration_raised:" + type(e).__name__, "decorate", _d(desc, e))
            reached()
            return compare(C, S, base, desc, dw)

    return Cond(f"def/base{basek}/dict{int(d)}_weakref{int(w)}", [(f"c{i}", int) for i in range(14)], body, mode="E3", timeout=timeout)


_METHOD_SRC = """
import dataclasses

class Mixin:
    def describe(self):
        return "mixin"

    def __init_subclass__(cls, **kw):
        super().__init_subclass__(**kw)
        cls.registered = True


@dataclasses.dataclass(frozen={frozen})
class M({bases}):
    a: int = 1
    b: int = 2

    def total(self):
        return self.a + self.b

    @classmethod
    def make(cls, a):
        return cls(a)

    @staticmethod
    def helper(x):
        return x + 1

    @property
    def double(self):
        return self.a * 2
{extra}
"""

_METHOD_EXTRAS = [
    "",
    "    def describe(self):\n        return 'M+' + super().describe()\n",                      # zero-argument super in a method
    "    def __post_init__(self):\n        super().__init__()\n",                                 # ... in __post_init__
    "    @classmethod\n    def __init_subclass__(cls, **kw):\n        super().__init_subclass__(**kw)\n        cls.sub = True\n",  # ... in a subclass hook
    "    def describe(self):\n        return 'M+' + Mixin.describe(self)\n",                      # explicit base call
    "    def describe(self):\n        tag = 'M+'\n        join = lambda s: tag + s\n        return join(super().describe())\n",  # super() next to a cell variable
]


def make_methods(timeout):
    """User-defined members survive the re-creation of the class: methods, class/static methods, properties, zero-argument
    super(), subclassing the decorated class."""

    def body(c0: int, c1: int, c2: int, c3: int):
        ch = Chooser((c0, c1, c2, c3))
        with NoTracing():
            k = ch.pick(len(_METHOD_EXTRAS))
            frozen = ch.flag() and k != 2
            with_mixin = ch.flag() or k in (1, 3, 4, 5)
            w = ch.flag()
            ns = {"__name__": MOD.__name__}
            exec(_METHOD_SRC.format(frozen=frozen, bases="Mixin" if with_mixin else "object", extra=_METHOD_EXTRAS[k]), ns)  # noqa: S102
            C = ns["M"]
            desc = (k, frozen, with_mixin, w)
            probes = [("total", lambda K: K(3, 4).total()), ("make", lambda K: dataclasses.astuple(K.make(5))), ("helper", lambda K: K.helper(1)),
                      ("double", lambda K: K(3).double), ("describe", lambda K: K().describe() if hasattr(K, "describe") else None),
                      ("construct", lambda K: dataclasses.astuple(K())),
                      ("subclass", lambda K: (type("Sub", (K,), {"__module__": MOD.__name__})(7).a, getattr(K, "registered", None)))]
            # "like instances of dataclass C": C as defined, observed before the decorator runs (the methods of the class
            # body share one __class__ cell, which the decorator may point at the replacement class)
            want = [attempt(fn, C) for _, fn in probes]
            try:
                S = _slotted(C, dict=False, weakref=w)
            except Exception as e:  # noqa: BLE001
                reached()
                return ("decoration_raised:" + type(e).__name__, "methods", _d(desc, e))
            reached()
            for (name, fn), a in zip(probes, want):
                b = attempt(fn, S)
                if a[0] != b[0] or (a[0] and a[1] != b[1]):
                    kind = "zero_arg_super" if (k in (1, 2, 3, 5) and not b[0] and "super" in str(b[1])) else "other"
                    return (f"user_member_behaves_differently:{kind}", "methods:" + name, _d(desc, a, b))
        return None

    return Cond("methods/user_members", [(f"c{i}", int) for i in range(4)], body, mode="E3", timeout=timeout)


def make_redeclare(timeout):
    """A child that re-declares a field inherited from an (un)slotted base - with a new plain default or a default factory."""

    def body(c0: int, c1: int, c2: int, c3: int, c4: int):
        ch = Chooser((c0, c1, c2, c3, c4))
        with NoTracing():
            basek = 1 + ch.pick(4)
            frozen = ch.flag()
            kind = ch.pick(2)
            d, w = ch.flag(), ch.flag()
            base = _mk("Base", [("b", int, dataclasses.field(default=7))], frozen=frozen)
            if basek in (2, 3):
                base = _slotted(base, dict=False, weakref=(basek == 3))
            if basek == 4:
                ground = _mk("Ground", [("g", int, dataclasses.field(default=1))], frozen=frozen)
                base = _slotted(_mk("Base", [("b", int, dataclasses.field(default=7))], bases=(ground,), frozen=frozen), dict=False, weakref=False)
            if basek in (3,) and w:
                w = False  # the base already provides __weakref__
            redecl = ("b", int, dataclasses.field(default=5)) if kind == 0 else ("b", list, dataclasses.field(default_factory=list))
            C = _mk("C", [redecl, ("z", int, dataclasses.field(default=0))], bases=(base,), frozen=frozen)
            desc = dict(redeclare=kind, base=basek, dict=d, weakref=w, frozen=frozen)
            try:
                S = _slotted(C, dict=d, weakref=w)
            except Exception as e:  # noqa: BLE001
                reached()
                return ("decoration_raised:" + type(e).__name__, "redeclare", _d(desc, e))
            reached()
            for name, fn in (("construct", lambda K: dataclasses.astuple(K())), ("construct_kw", lambda K: dataclasses.astuple(K(z=3))),
                             ("repr", lambda K: repr(K())), ("eq", lambda K: K() == K()), ("default", lambda K: K().b)):
                a, b = attempt(fn, C), attempt(fn, S)
                if a[0] != b[0] or (a[0] and a[1] != b[1]):
                    return ("redeclared_field_behaves_differently", "redeclare:" + name, _d(desc, a, b))
        return None

    return Cond("redeclare/inherited_field", [(f"c{i}", int) for i in range(5)], body, mode="E3", timeout=timeout)


class _Pinned:
    """A Chooser whose k-th consulted choice is pinned (partitions the space over conditions)."""

    def __init__(self, ch, pins):
        self.ch, self.pins, self.n = ch, pins, 0

    def pick(self, n):
        k = self.n
        self.n += 1
        if k in self.pins:
            return self.pins[k] % n
        return self.ch.pick(n)

    def flag(self):
        return bool(self.pick(2))

    def choose(self, seq):
        return seq[self.pick(len(seq))]


def make_history(length, timeout):
    """Decoration histories: any order of valid / same-named / failing / nested decorations never raises for a
    plain-metaclass dataclass, and each returned class is built from the class that was passed in."""

    def body(**p):
        ch = Chooser([p[f"c{i}"] for i in range(2 * length + 1)])
        with NoTracing():
            from typelib.py import classes

            classes._stack.clear()
            prev = None
            log = []
            for step in range(length):
                kind = ch.pick(6)
                w = ch.flag()
                nested = []
                if kind == 5:
                    # decorating the outer class re-creates it, which runs its base's __init_subclass__, which decorates
                    # another dataclass (nested decoration); long names that share a prefix and a suffix
                    inner = _mk("PartialRequestPayloadModelForHistory", [("q", int, dataclasses.field(default=0))])

                    def hook(c, _inner=inner, _w=w, _nested=nested, **kw):
                        _nested.append(_slotted(_inner, dict=False, weakref=_w))

                    base = type("Hook", (), {"__init_subclass__": classmethod(hook), "__module__": MOD.__name__})
                    cls = _mk("RequestPayloadModelForHistory", [("a", int)], bases=(base,))
                    nested.clear()
                elif kind == 0:
                    cls = _mk("H", [("a", int)])
                elif kind == 1:
                    cls = _mk("H", [("a", int), ("b", int, dataclasses.field(default=1))], frozen=True)
                elif kind == 2:
                    cls = type("H", (), {"__module__": MOD.__name__})  # not a dataclass: decoration must fail cleanly
                elif kind == 3:  # same name, other shape, subclass of an unslotted dataclass
                    cls = _mk("H", [("c", int, dataclasses.field(default=3))], bases=(_mk("HB", [("a", int, dataclasses.field(default=0))]),))
                else:
                    cls = _mk("G", [("z", int, dataclasses.field(default=0))], order=True)
                log.append((kind, w))
                try:
                    prev_new = _slotted(cls, dict=False, weakref=w)
                except Exception as e:  # noqa: BLE001
                    if kind == 2 and isinstance(e, TypeError):
                        continue
                    reached()
                    return ("valid_decoration_refused:" + type(e).__name__, "history", _d(log, e))
                prev = prev_new
                # the class handed back is built from *this* class: same fields, flags and name
                for src, new in [(cls, prev_new)] + ([(inner, nested[-1])] if kind == 5 and nested else []):
                    if ([f.name for f in dataclasses.fields(new)] != [f.name for f in dataclasses.fields(src)]
                            or new.__dataclass_params__.frozen != src.__dataclass_params__.frozen
                            or new.__dataclass_params__.order != src.__dataclass_params__.order
                            or (new.__qualname__, new.__module__) != (src.__qualname__, src.__module__)
                            or not {f.name for f in dataclasses.fields(src) if f.name in src.__annotations__} <= set(new.__slots__)):
                        reached()
                        return ("decorated_class_is_not_built_from_its_input", "history", _d(log, src, dataclasses.fields(new)))
                if kind == 5 and not nested:
                    reached()
                    return ("nested_decoration_not_run", "history", _d(log))
                if kind != 2:
                    try:
                        prev(1) if kind in (0, 1, 3, 5) else prev()
                    except Exception as e:  # noqa: BLE001
                        reached()
                        return ("decorated_class_unusable:" + type(e).__name__, "history", _d(log, e))
            reached()
            if classes._stack:
                return ("guard_not_released", "history", _d(log, classes._stack))
        return None

    n = 2 * length + 1
    return Cond(f"history/len{length}", [(f"c{i}", int) for i in range(n)], body, mode="E3", timeout=timeout)


def conditions(tier, seed):
    to = 75.0 if tier == "quick" else 240.0
    mf = 3 if tier == "quick" else 4
    out = [make_def(b, d, w, to, mf) for b in range(5) for d in (False, True) for w in (False, True)]
    out += [make_history(n, to) for n in ((1, 2, 3) if tier == "quick" else (1, 2, 3, 4))]
    out.append(make_methods(to))
    out.append(make_redeclare(to))
    return out
