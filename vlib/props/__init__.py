"""One module per property: `conditions(tier, seed) -> list[Cond]` plus `META`."""
import importlib


def load(prop: str):
    return importlib.import_module("vlib.props." + prop.lower())
