"""C14 - text-like inputs are interchangeable (DESIGN 4, C14)."""
from __future__ import annotations

import ast
import json

from vlib import universe
from vlib.cond import Cond
from vlib.prelude import SYMBOLIC, Chooser, NoTracing, attempt, reached
from vlib.props.c02 import PickSrc
from vlib.props.c12 import canon
from vlib.shapes import Bytes, params_for

META = {
    "functions": ["typelib.serdes.decode", "typelib.serdes.load", "typelib.serdes.strload", "typelib.py.inspection.istexttype",
                  "every unmarshaller's text entry (serdes.load / serdes.decode)"],
    "bounds": {
        "quick": "six carriers (str, bytes, bytearray, memoryview(bytes), memoryview(bytearray), a memoryview slice of a larger buffer) x catalogue core x 31 texts (look-alikes: "
                 "numerals, true/null/None, JSON and Python-literal containers, malformed JSON, ISO date / duration, control and non-ASCII "
                 "characters) + the JSON and repr() text of wire values assembled from pick-lists; load/strload on every string of length <= 2 "
                 "and a seed-rotated third of length 3 over a 14-character alphabet ([]{}\",:0-9a space e-acute NUL) in str and bytes; "
                 "serdes.decode on symbolic bytes len <= 3 (E1); load on non-text inputs (E1)",
        "thorough": "all strings of length <= 3; catalogue depth 3",
    },
    "assumptions": ["JSON text is realised at the C decoder: the closed claim is over the stated alphabet and pick-lists",
                    "results are compared by a canonical rendering (classes + values)"],
}

CARRIERS = ("str", "bytes", "bytearray", "memoryview", "memoryview_rw", "memoryview_slice")
TEXTS = ["1", "-2", "1.5", "true", "null", "None", "[1]", "[1, 2]", '{"a": 1}', "{'a': 1}", "(1, 2)", "1,2", "abc", "", " 1 ", "é", "a\x00b",
         "2020-01-01", "2020-01-01T00:00:00+00:00", "PT1S", "[1", '"q"',
         # digits and blanks outside ASCII (int / float / Decimal accept them), texts of exactly 16 and 36 bytes
         "\u0661\u0662", "\u00a07", "\uff11.\uff15", "1234567890123456", "not-a-uuid-at-al", "\u00e9" * 8,
         "12345678-1234-5678-1234-567812345678",
         # all-digit texts that are also ISO 8601 basic dates (a number for one reader, a date for another)
         "2024", "20240102"]
# JSON text that is also a Python literal with another meaning, and literals that are not JSON
JSONISH = ['"\\/"', '["\\ud83d\\ude00"]', '{"url":"http:\\/\\/x"}', '"\\u00e9"', "123456789012345678901234567890", "1e400",
           "-0", "1E2", '"\\n"', "[1.0, 2]", '{"a": [1, {"b": null}]}', "1_000", "0x10", "[1,]", "(1)", "'a' 'b'", "b'x'", "{1, 2}",
           '"\\x41"', "1.", "01", "+1", "NaN", "Infinity", "1e5", "[true]", "[None]"]
ALPHA = ["[", "]", "{", "}", '"', ",", ":", "0", "1", "9", "a", " ", "é", "\x00"]


def _d(*xs):
    return "" if SYMBOLIC else " | ".join(repr(x)[:200] for x in xs)


def carry(s: str, c: str):
    b = s.encode("utf8")
    if c == "memoryview_slice":  # the text as a field inside a larger buffer
        return memoryview(b"[1" + b + b"0]")[2:-2]
    return {"str": s, "bytes": b, "bytearray": bytearray(b), "memoryview": memoryview(b), "memoryview_rw": memoryview(bytearray(b))}[c]


def outcome(fn, x):
    ok, r = attempt(fn, x)
    return ("ok", canon(r)) if ok else ("exc",)


def make_carriers(shape, timeout):
    from typelib import marshals, unmarshals

    site = shape.name
    with NoTracing():
        try:
            UT, MT, err = unmarshals.unmarshaller(shape.T), marshals.marshaller(shape.T), None
        except Exception as e:  # noqa: BLE001
            UT = MT = None
            err = type(e).__name__
    n = max(6, 3 * len(params_for(shape)) + 4)

    def body(**p):
        if err is not None:
            reached()
            return ("build_failed", site, err)
        ch = Chooser([p[f"c{i}"] for i in range(n)])
        with NoTracing():
            k = ch.pick(len(TEXTS) + 2)
            if k < len(TEXTS):
                s = TEXTS[k]
            else:
                v = shape.build(PickSrc(ch))
                ok, m = attempt(MT, v)
                if not ok:
                    return None
                try:
                    s = json.dumps(m) if k == len(TEXTS) else repr(m)
                except (TypeError, ValueError):
                    return None
                if type(m) is str and k == len(TEXTS):
                    s = m  # a scalar's wire form *is* its text
            base = outcome(UT, carry(s, "str"))
            reached()
            for c in CARRIERS[1:]:
                o = outcome(UT, carry(s, c))
                if o != base:
                    return ("carrier_differs:" + c, site, _d(s, base, o))
        return None

    return Cond(f"carriers/{site}", [(f"c{i}", int) for i in range(n)], body, mode="E3", timeout=timeout)


def make_primed(timeout):
    """Carriers still agree after the routine has been used - with another text, through another carrier."""
    import typing as t

    from typelib import unmarshals

    targets = [("Union[int,str]", t.Union[int, str]), ("float|str", float | str), ("list[int]", list[int]), ("tuple[int,int]", tuple[int, int]),
               ("Optional[str]", t.Optional[str]), ("dict[str,int]", dict[str, int])]
    texts = ["n/a", "1", "2.5", "[1, 2, 3]", '{"a": 1}', "null"]

    def body(c0: int, c1: int, c2: int, c3: int, c4: int):
        from vlib import caches

        ch = Chooser((c0, c1, c2, c3, c4))
        with NoTracing():
            name, T = ch.choose(targets)
            prime_T = T if ch.flag() else tuple[int, int]
            s0, c0_ = ch.choose(texts), ch.choose(("str", "bytes"))
            s1 = ch.choose(texts)
            caches.clear_all()
            attempt(unmarshals.unmarshaller(prime_T), carry(s0, c0_))
            UT = unmarshals.unmarshaller(T)
            base = outcome(UT, carry(s1, "str"))
            reached()
            for c in CARRIERS[1:]:
                o = outcome(UT, carry(s1, c))
                if o != base:
                    return ("carrier_differs_after_priming:" + c, name, _d(prime_T, s0, c0_, s1, base, o))
            caches.clear_all()
            cold = outcome(unmarshals.unmarshaller(T), carry(s1, "str"))
            if cold != base:
                return ("text_outcome_depends_on_priming", name, _d(prime_T, s0, c0_, s1, base, cold))
        return None

    return Cond("primed/carriers", [(f"c{i}", int) for i in range(5)], body, mode="E3", timeout=timeout)


def _composite(s):
    return any(k in s.__dict__ for k in ("elem", "elems", "fields", "key"))


def make_textwire(shape, timeout):
    """For collection / mapping / structured T the JSON or Python-literal text of a wire value is equivalent to the value."""
    from typelib import marshals, unmarshals

    site = shape.name
    with NoTracing():
        try:
            UT, MT, err = unmarshals.unmarshaller(shape.T), marshals.marshaller(shape.T), None
        except Exception as e:  # noqa: BLE001
            UT = MT = None
            err = type(e).__name__
    n = max(6, 3 * len(params_for(shape)) + 4)

    def body(**p):
        if err is not None:
            reached()
            return ("build_failed", site, err)
        ch = Chooser([p[f"c{i}"] for i in range(n)])
        with NoTracing():
            v = shape.build(PickSrc(ch))
            ok, m = attempt(MT, v)
            if not ok:
                return None
            base = outcome(UT, m)
            reached()
            for form, fn in (("json", json.dumps), ("repr", repr)):
                try:
                    s = fn(m)
                except (TypeError, ValueError):
                    continue
                for c in ("str", "bytes"):
                    o = outcome(UT, carry(s, c))
                    if o != base:
                        return (f"text_of_wire_value_differs:{form}", site, _d(m, s, c, base, o))
        return None

    return Cond(f"textwire/{site}", [(f"c{i}", int) for i in range(n)], body, mode="E3", timeout=timeout)


def make_load(length, part, nparts, timeout):
    """serdes.load / strload against the JSON decoder and the literal evaluator over an alphabet."""

    def body(**p):
        from typelib import serdes

        ch = Chooser([p[f"c{i}"] for i in range(length + 1)])
        with NoTracing():
            first = ALPHA[part::nparts]  # the condition's share of the strings: by first character
            s = first[ch.pick(len(first))] + "".join(ALPHA[ch.pick(len(ALPHA))] for _ in range(length - 1))
            carrier = ("str", "bytes")[ch.pick(2)]
            x = carry(s, carrier)
            fn = getattr(serdes.strload, "__wrapped__", serdes.strload)
            ok, r = attempt(serdes.load, x)
            ok2, r2 = attempt(fn, x)
            reached()
            if not ok or not ok2:
                return ("load_raised", carrier, _d(s, r, r2))
            if canon(r) != canon(r2):
                return ("load_differs_from_strload", carrier, _d(s, r, r2))
            try:
                want = ("json", json.loads(s))
            except ValueError:
                try:
                    want = ("literal", ast.literal_eval(s))
                except (ValueError, TypeError, SyntaxError, MemoryError, RecursionError):
                    want = ("text", s)
            if want[0] == "json" and canon(r) != canon(want[1]):
                return ("json_text_not_decoded_as_json", carrier, _d(s, r, want[1]))
            if want[0] == "text" and not (type(r) is str and r == s):
                return ("plain_text_not_returned_unchanged", carrier, _d(s, r))
            if want[0] == "literal" and canon(r) != canon(want[1]) and not (type(r) is str and r == s):
                return ("literal_text_misread", carrier, _d(s, r, want[1]))
        return None

    return Cond(f"load/len{length}/part{part}of{nparts}", [(f"c{i}", int) for i in range(length + 1)], body, mode="E3", timeout=timeout)


def make_load_texts(timeout):
    """Escapes, big numbers and literal-only spellings (not expressible over the 14-character alphabet)."""

    def body(c0: int, c1: int):
        from typelib import serdes

        ch = Chooser((c0, c1))
        with NoTracing():
            s = JSONISH[ch.pick(len(JSONISH))]
            carrier = CARRIERS[ch.pick(len(CARRIERS))]
            fn = getattr(serdes.strload, "__wrapped__", serdes.strload)
            ok, r = attempt(serdes.load, carry(s, carrier))
            reached()
            if not ok:
                return ("load_raised", carrier, _d(s, r))
            try:
                want = ("json", json.loads(s))
            except ValueError:
                want = None
            if want is not None:
                import math

                w = want[1]
                if isinstance(w, float) and (math.isinf(w) or math.isnan(w)):
                    return None  # non-finite numbers: decoders legitimately differ
                if isinstance(w, int) and abs(w) >= 2 ** 63:
                    return None  # beyond 64 bits the configured decoder (orjson) answers with a float: outside the domain
                if canon(r) != canon(w):
                    return ("json_text_not_decoded_as_json", carrier, _d(s, r, w))
        return None

    return Cond("load/texts", [("c0", int), ("c1", int)], body, mode="E3", timeout=timeout)


def make_load_nontext(timeout):
    def body(i: int, b: bool, n: int):
        from typelib import serdes

        n = n % 3
        for x in (i, b, None, [i][:n], {"k": i}, (i, b), 1.5):
            ok, r = attempt(serdes.load, x)
            reached()
            if not ok:
                return ("load_raised", "nontext", _d(x, r))
            if r is not x:
                return ("nontext_input_not_returned_untouched", "nontext", _d(x, r))
        return None

    return Cond("load/nontext", [("i", int), ("b", bool), ("n", int)], body, mode="E1", timeout=timeout)


def make_decode(timeout):
    def body(b: bytes, kind: int):
        from typelib import serdes

        if len(b) > 3:
            return None
        kind = kind % 3
        x = b if kind == 0 else (bytearray(b) if kind == 1 else memoryview(b))
        ok, want = attempt(lambda: b.decode("utf8"))
        ok2, r = attempt(serdes.decode, x)
        reached()
        if ok != ok2:
            return ("decode_acceptance_differs", ("bytes", "bytearray", "memoryview")[kind], _d(b, want, r))
        if ok and not (type(r) is str and r == want):
            return ("decode_result_differs", ("bytes", "bytearray", "memoryview")[kind], _d(b, want, r))
        return None

    return Cond("decode/bytes", [("b", bytes), ("kind", int)], body, mode="E1", timeout=timeout)


def make_decode_str(timeout):
    def body(s: str):
        from typelib import serdes

        if len(s) > 3:
            return None
        ok, r = attempt(serdes.decode, s)
        reached()
        if not ok or r is not s:
            return ("str_not_returned_untouched", "decode", _d(s, r))
        return None

    return Cond("decode/str", [("s", str)], body, mode="E1", timeout=timeout)


def conditions(tier, seed):
    to = 40.0 if tier == "quick" else 180.0
    out = []
    maxleaves = 4 if tier == "quick" else 6
    for s in universe.select(tier, seed):
        if isinstance(s, Bytes) or len(params_for(s)) > maxleaves:
            continue
        out.append(make_carriers(s, to))
        if _composite(s):
            out.append(make_textwire(s, to))
    out.append(make_load(1, 0, 1, to))
    out.append(make_load(2, 0, 1, to))
    if tier == "quick":
        out.append(make_load(3, seed % 3, 3, to))
    else:
        out += [make_load(3, k, 3, to) for k in range(3)]
    out += [make_load_texts(to), make_load_nontext(to), make_decode(to), make_decode_str(to), make_primed(2 * to)]
    if not any(c.name == "carriers/Slug(str)" for c in out):  # a user subclass of str (in the catalogue core; kept explicit)
        from vlib.fixtures import models as M
        from vlib.shapes import Picked

        out.append(make_carriers(Picked(M.Slug, [M.Slug("abc"), M.Slug("")], name="Slug(str)"), to))
    return out
