"""C11 - aliases, NewTypes, qualifiers and string references are transparent (DESIGN 4, C11).

Differential, both sides real: routines for pos(W(T)) against routines for pos(T) on identical inputs.
The wrapper chain, the position and the reference origin are choice variables (E3); one value-symbolic
(E1) condition per wrapper kind runs the two root routines on an arbitrary symbolic x in J."""
from __future__ import annotations

import typing as t

from vlib.cond import Cond
from vlib.fixtures import models as M
from vlib.fixtures import othermod, wrapmod
from vlib.prelude import SYMBOLIC, Chooser, NoTracing, attempt, reached
from vlib.props.c05 import deep_same
from vlib.shapes import JVal, Src, jparams

META = {
    "functions": ["typelib.py.inspection.unwrap/should_unwrap/origin/args", "typelib.py.refs.forwardref/evaluate/_resolve_module_name",
                  "typelib.py.frames.extract/getcaller", "typelib.ctx.TypeContext.__missing__", "typelib.graph.get_type_graph/static_order",
                  "typelib.marshals.api.marshaller", "typelib.unmarshals.api.unmarshaller", "typelib.codecs.codec"],
    "bounds": {
        "quick": "bases {int, list[int], dict[str,int], Literal['r','w'], a dataclass imported into the referencing module, a dataclass defined in it}; every wrapper chain of length 1 and 2 over {NewType, TypeAliasType(value), "
                 "TypeAliasType('string'), Final, ClassVar, 'string reference', ForwardRef(module=..)} that Python permits; positions root, "
                 "list[.], dict[str, .], tuple[., int], Union[., None], dataclass field; 10 inputs per base (valid wire forms, text, "
                 "wrong-typed, None) through unmarshaller, marshaller and codec; string references issued from the defining module, "
                 "from another module with a qualified name and from nested call depth 3 - all choice variables; 18 reference *expressions* (also as the value of a string-valued alias, at the root and as a list element) "
                 "(nested class 'Outer.Inner', 'A | B', 'A | None', 'list[Outer.Inner]', 'tuple[A, int]', fully qualified forms issued from "
                 "another module) x {unmarshaller, marshaller, codec} x 11-12 inputs against the evaluated type; classes whose recursion is closed through a NewType / TypeAliasType (Optional and list edges) against the class that names itself, wire trees of depth <= 2; plus, per wrapper kind and "
                 "base, the two root unmarshallers on a symbolic x in J depth 1 (E1)",
        "thorough": "chains of length 3 (seed-rotated half); J depth 2",
    },
    "assumptions": ["Final / ClassVar inside a container argument are not valid Python annotations and are outside the domain; ClassVar is used at the root only"],
}

POSITIONS = ("root", "list", "dict_value", "tuple_member", "union_member", "class_field")


def _d(*xs):
    return "" if SYMBOLIC else " | ".join(repr(x)[:200] for x in xs)


INPUTS = {
    "int": [1, "2", b"3", None, [1], "x", 1.5, True],
    "list[int]": [[1, 2], ["1", 2], "[1, 2]", b"[3]", None, 5, {"a": 1}, (), [["x"]]],
    "Point": [{"x": 1, "y": 2}, {"x": "1", "y": "2"}, '{"x": 1, "y": 2}', M.Point(1, 2), None, {"x": 1}, [("x", 1), ("y", 2)], 7],
    "dict[str,int]": [{"a": 1}, {"a": "1"}, '{"a": 1}', None, [("a", 1)], 3, {"a": "x"}, {}],
    "WPoint": [{"x": 1, "y": 2}, {"x": "1", "y": "2"}, '{"x": 1, "y": 2}', wrapmod.WPoint(1, 2), None, {"x": 1}, 7],
    "Literal": ["r", "w", "x", b"r", None, 1, ["r"]],
}
VALUES = {
    "int": [1, -5, True], "list[int]": [[1, 2], [], (3,)], "Point": [M.Point(1, 2)], "dict[str,int]": [{"a": 1}, {}],
    "WPoint": [wrapmod.WPoint(1, 2)],
    "Literal": ["r", "w"],
}


def at_position(pos, ann, inp):
    """(annotation, input) lifted to a position."""
    if pos == "root":
        return ann, inp
    if pos == "list":
        return list[ann], [inp, inp]
    if pos == "dict_value":
        return dict[str, ann], {"k": inp}
    if pos == "tuple_member":
        return tuple[ann, int], [inp, 1]
    if pos == "union_member":
        return t.Union[ann, None], inp
    return wrapmod.holder(ann), {"x": inp}


def build_chain(ch: Chooser, base, maxlen):
    """Returns (kinds, wrapped annotation or None when the chain is not expressible in Python)."""
    name, obj = wrapmod.BASES[base]
    ln = 1 + ch.pick(maxlen)
    kinds = []
    for i in range(ln):
        k = wrapmod.WRAPPERS[ch.pick(len(wrapmod.WRAPPERS))]
        kinds.append(k)
        if kinds[:-1] and kinds[-2] in ("Final", "ClassVar"):
            return kinds, None  # qualifiers are only legal outermost
        if isinstance(obj, (str, t.ForwardRef)) and k in ("NewType", "alias"):
            return kinds, None  # NewType / alias of a bare string is a different construct (alias_str covers it)
        name, new = wrapmod.wrap(k, name, obj)
        if new is None:
            return kinds, None
        obj = new
    return kinds, obj


def comparable(pos, kinds):
    """Python only permits Final/ClassVar at the root or on class fields."""
    outer = kinds[-1]
    if "ClassVar" in kinds and (pos != "root" or outer != "ClassVar" and "ClassVar" in kinds[:-1] and pos != "root"):
        return pos == "root"
    if "Final" in kinds and pos not in ("root", "class_field"):
        return False
    return True


def outcome(fn, x):
    ok, r = attempt(fn, x)
    return (ok, r if ok else type(r).__name__)


def field_or_self(pos, r):
    return getattr(r, "x") if pos == "class_field" and hasattr(r, "x") else r


def make_chain(base, pos, maxlen, timeout):
    _, T = wrapmod.BASES[base]

    def body(**p):
        from typelib import codecs, marshals, unmarshals

        from vlib import caches

        ch = Chooser([p[f"c{i}"] for i in range(2 * maxlen + 3)])
        with NoTracing():
            kinds, W = build_chain(ch, base, maxlen)
            if W is None or not comparable(pos, kinds):
                return None
            site = "+".join(kinds) + "@" + pos
            ins = INPUTS[base]
            x = ins[ch.pick(len(ins))]
            annW, xW = at_position(pos, W, x)
            annT, xT = at_position(pos, T, x)
            caches.clear_all()
            reached()
            try:
                UW = wrapmod.call_here(unmarshals.unmarshaller, annW)
            except Exception as e:  # noqa: BLE001
                return ("wrapped_type_fails_to_build:" + type(e).__name__, _site(kinds, pos, base), _d(kinds, annW, e))
            UT = unmarshals.unmarshaller(annT)
            a, b = outcome(UW, xW), outcome(UT, xT)
            if a[0] != b[0] or (a[0] and not deep_same(field_or_self(pos, a[1]), field_or_self(pos, b[1]))) or (not a[0] and a[1] != b[1]):
                return ("unmarshal_differs", _site(kinds, pos, base), _d(kinds, annW, x, a, b))
            # marshal + codec on a valid value
            vals = VALUES[base]
            v = vals[ch.pick(len(vals))]
            if pos == "class_field":
                HW, HT = annW, annT
                vW, vT = HW(v), HT(v)
            else:
                _, vW = at_position(pos, W, v)
                vT = vW
                if pos == "tuple_member":
                    vW = vT = tuple(vW)
            try:
                MW = wrapmod.call_here(marshals.marshaller, annW)
            except Exception as e:  # noqa: BLE001
                return ("wrapped_type_fails_to_build:" + type(e).__name__, _site(kinds, pos, base), _d(kinds, annW, e))
            MT = marshals.marshaller(annT)
            a, b = outcome(MW, vW), outcome(MT, vT)
            if a[0] != b[0] or (a[0] and not deep_same(a[1], b[1])) or (not a[0] and a[1] != b[1]):
                return ("marshal_differs", _site(kinds, pos, base), _d(kinds, annW, v, a, b))
            try:
                CW = wrapmod.call_here(codecs.codec, annW)
            except Exception as e:  # noqa: BLE001
                return ("wrapped_type_fails_to_build:" + type(e).__name__, _site(kinds, pos, base), _d(kinds, annW, e))
            CT = codecs.codec(annT)
            a, b = outcome(CW.encode, vW), outcome(CT.encode, vT)
            if a != b:
                return ("codec_encode_differs", _site(kinds, pos, base), _d(kinds, annW, v, a, b))
            if a[0]:
                c, d = outcome(CW.decode, a[1]), outcome(CT.decode, b[1])
                if c[0] != d[0] or (c[0] and not deep_same(field_or_self(pos, c[1]), field_or_self(pos, d[1]))):
                    return ("codec_decode_differs", _site(kinds, pos, base), _d(kinds, annW, v, c, d))
        return None

    return Cond(f"chain/{base}/{pos}", [(f"c{i}", int) for i in range(2 * maxlen + 3)], body, mode="E3", timeout=timeout)


def _site(kinds, pos, base="Point"):
    """Identity of a finding: which reference forms are involved, what the innermost one names (a class defined
    in the referencing module / a class imported into it / a module-level alias variable) and where it sits."""
    refy = [k for k in kinds if k in ("str", "ForwardRef", "alias_str")]
    if not refy:
        return "wrap:" + ("nested" if pos != "root" else "root") + ":" + "+".join(kinds) + "@" + pos
    first_is_ref = kinds[0] in ("str", "ForwardRef", "alias_str")
    if first_is_ref and base == "WPoint":
        target = "local_class"
    elif first_is_ref and base == "Point":
        target = "imported_class"
    else:
        target = "alias_variable"
    inner = pos != "root" or len(kinds) > 1 and kinds[-1] in ("Final", "ClassVar", "NewType", "alias")
    return f"ref_to_{target}:" + ("nested" if inner else "root") + ":" + "+".join(kinds) + "@" + pos


def make_origin(base, timeout):
    """String references issued from the defining module, another module (qualified), nested call depth."""
    name, T = wrapmod.BASES[base]
    tgt = ":class" if base in ("Point", "WPoint") else ":alias_variable"

    def body(c0: int, c1: int, c2: int):
        from typelib import marshals, unmarshals

        from vlib import caches

        ch = Chooser((c0, c1, c2))
        with NoTracing():
            origin = ch.pick(3)
            which = ch.pick(2)
            ins = INPUTS[base]
            x = ins[ch.pick(len(ins))]
            caches.clear_all()
            fn = unmarshals.unmarshaller if which == 0 else marshals.marshaller
            reached()
            try:
                if origin == 0:
                    R = wrapmod.call_here(fn, name)
                elif origin == 1:
                    R = othermod.call_qualified(fn, f"{wrapmod.__name__}.{name}")
                else:
                    R = wrapmod.call_nested(fn, name, 3)
            except Exception as e:  # noqa: BLE001
                return ("reference_unresolved:" + type(e).__name__, ("here", "qualified", "nested")[origin] + tgt, _d(name, e))
            RT = fn(T)
            if which == 1:
                vals = VALUES[base]
                x = vals[0]
            a, b = outcome(R, x), outcome(RT, x)
            if a[0] != b[0] or (a[0] and not deep_same(a[1], b[1])) or (not a[0] and a[1] != b[1]):
                return ("reference_behaves_differently", ("here", "qualified", "nested")[origin] + tgt, _d(name, x, a, b))
        return None

    return Cond(f"origin/{base}", [("c0", int), ("c1", int), ("c2", int)], body, mode="E3", timeout=timeout)


def _refexprs():
    W = wrapmod
    Q = W.__name__
    local = {"WOuter.WInner": W.WOuter.WInner, "list[WOuter.WInner]": list[W.WOuter.WInner], "dict[str, WOuter.WInner]": dict[str, W.WOuter.WInner],
             "WPoint | None": W.WPoint | None, "WPoint | WOther": W.WPoint | W.WOther, "tuple[WPoint, int]": tuple[W.WPoint, int],
             "list[WPoint]": list[W.WPoint], "WOuter": W.WOuter, "Point | None": W.Point | None, "list[Point]": list[W.Point],
             "Literal['r', 'w']": t.Literal["r", "w"], "LiteralText": W.LiteralText, "list[Literal['r', 'w']]": list[t.Literal["r", "w"]],
             "Counter": W.Counter, "list[Counter]": list[W.Counter], "dict[str, Counter]": dict[str, W.Counter], "Text": W.Text}
    qual = {f"{Q}.WOuter.WInner": W.WOuter.WInner, f"{Q}.WPoint | {Q}.WOther": W.WPoint | W.WOther, f"{Q}.WPoint | None": W.WPoint | None,
            f"{Q}.WPoint": W.WPoint, f"{Q}.WOuter": W.WOuter}
    out = [("here", r, T) for r, T in local.items()] + [("qualified", r, T) for r, T in qual.items()]
    # the same expressions as the *value* of a string-valued alias, at the root and as a list element
    for r, T in local.items():
        key = "alias_str:" + r
        if key not in _ALIASES:
            _ALIASES[key] = wrapmod.wrap("alias_str", r, None)[1]
        out.append(("alias_str", _ALIASES[key], T))
        out.append(("alias_str_in_list", list[_ALIASES[key]], list[T]))
    return out


_ALIASES = {}


def make_refexpr(which, timeout):
    """String references that are *expressions* (nested classes, unions, subscripted generics over referenced names),
    issued from the defining module and - fully qualified - from another module; against the evaluated type."""
    W = wrapmod
    wire = [{"x": 1, "y": 2}, {"x": "1"}, {"name": "n"}, None, [{"x": 1}], {"k": {"x": "3"}}, [{"x": 1, "y": 2}, 1], "abc", 7,
            {"inner": {"x": "1"}}, '{"x": 1, "y": 2}', [{"x": 1, "y": "2"}], "r", ["w", "r"], {"body": 5}, "5", ["6", 7], {"k": "8"}]
    vals = [W.WPoint(1, 2), W.WOther("n"), W.WOuter.WInner(1), None, [W.WOuter.WInner(1)], {"k": W.WOuter.WInner(2)}, (W.WPoint(1, 2), 3),
            [W.WPoint(1, 2)], W.WOuter(W.WOuter.WInner(1)), M.Point(1, 2), [M.Point(1, 2)], "r", "x", ["w"], W.LiteralText("b"), 5, [6], {"k": 7}]

    def lift(x, origin):
        return [x] if origin == "alias_str_in_list" else x


    def body(c0: int, c1: int, c2: int):
        from typelib import codecs, marshals, unmarshals

        from vlib import caches

        ch = Chooser((c0, c1, c2))
        with NoTracing():
            exprs = _refexprs()
            origin, ref, T = exprs[ch.pick(len(exprs))]
            caches.clear_all()
            fn = (unmarshals.unmarshaller, marshals.marshaller, codecs.codec)[which]
            rs = str(ref)
            site = origin + ":" + ("nested_class" if "WInner" in rs else "literal" if "Literal" in rs else "union" if "|" in rs else "subscripted" if "[" in rs else "class")
            reached()
            try:
                R = othermod.call_qualified(fn, ref) if origin == "qualified" else wrapmod.call_here(fn, ref)
            except Exception as e:  # noqa: BLE001
                return ("reference_unresolved:" + type(e).__name__, site, _d(ref, e))
            RT = fn(T)
            if which == 0:
                x = lift(wire[ch.pick(len(wire))], origin)
                a, b = outcome(R, x), outcome(RT, x)
            elif which == 1:
                x = lift(vals[ch.pick(len(vals))], origin)
                a, b = outcome(R, x), outcome(RT, x)
            else:
                x = lift(vals[ch.pick(len(vals))], origin)
                a, b = outcome(R.encode, x), outcome(RT.encode, x)
                if a == b and a[0]:
                    a, b = outcome(R.decode, a[1]), outcome(RT.decode, b[1])
            if a[0] != b[0] or (a[0] and not deep_same(a[1], b[1])) or (not a[0] and a[1] != b[1]):
                return ("reference_behaves_differently", site, _d(ref, x, a, b))
        return None

    return Cond("refexpr/" + ("unmarshaller", "marshaller", "codec")[which], [("c0", int), ("c1", int), ("c2", int)], body, mode="E3", timeout=timeout)


_RC = [0]


def _rec_wire(ch, depth, with_parent=True):
    _RC[0] += 1
    w = {"v": str(_RC[0])}
    if depth > 0:
        n = ch.pick(3 if depth > 1 else 2)
        if n:
            w["kids"] = [_rec_wire(ch, depth - 1, with_parent) for _ in range(n)]
        if with_parent and ch.flag():
            w["parent"] = _rec_wire(ch, depth - 1, with_parent)
    return w


def _levels(v, cls, out):
    out.append(type(v) is cls)
    for k in getattr(v, "kids", []) or []:
        _levels(k, cls, out)
    if getattr(v, "parent", None) is not None:
        _levels(v.parent, cls, out)


def make_recwrap(timeout):
    """A class whose recursion is closed *through* a NewType / TypeAliasType behaves like the one that names itself."""

    def body(**p):
        import typelib

        from vlib import caches

        ch = Chooser([p[f"c{i}"] for i in range(20)])
        with NoTracing():
            k = ch.pick(3)
            cls = (wrapmod.RecNT, wrapmod.RecTA, wrapmod.RecKids)[k]
            _RC[0] = 0
            wire = _rec_wire(ch, 2, with_parent=k != 2)
            caches.clear_all()
            reached()
            a = attempt(typelib.unmarshal, cls, wire)
            b = attempt(typelib.unmarshal, wrapmod.RecPlain, wire)
            site = cls.__name__
            if not b[0]:
                return None
            if not a[0]:
                return ("wrapped_recursion_rejects", site, _d(wire, a[1]))
            lv = []
            _levels(a[1], cls, lv)
            if not all(lv):
                return ("wrapped_recursion_level_unconverted", site, _d(wire, a[1]))
            ma, mb = attempt(typelib.marshal, a[1]), attempt(typelib.marshal, b[1])
            if not ma[0]:
                return ("wrapped_recursion_marshal_raised", site, _d(wire, ma[1]))
            want = mb[1] if k != 2 else _drop_parent(mb[1])
            if not deep_same(ma[1], want):
                return ("wrapped_recursion_differs", site, _d(wire, ma[1], want))
            ea, eb = attempt(lambda: typelib.codec(cls).decode(typelib.codec(cls).encode(a[1]))), None
            if not ea[0] or ea[1] != a[1]:
                return ("wrapped_recursion_codec_roundtrip", site, _d(wire, ea))
        return None

    return Cond("recwrap", [(f"c{i}", int) for i in range(20)], body, mode="E3", timeout=timeout)


def make_recwrap_nested(timeout):
    """A NewType / alias *around* a recursive class, at the root and at nested positions, against the class itself."""

    def body(c0: int, c1: int, c2: int, c3: int, c4: int, c5: int, c6: int, c7: int):
        from typelib import codecs, marshals, unmarshals

        from vlib import caches

        ch = Chooser((c0, c1, c2, c3, c4, c5, c6, c7))
        with NoTracing():
            W = (wrapmod.RecPlainId, wrapmod.RecPlainAlias, t.Final[wrapmod.RecPlainAlias])[ch.pick(3)]
            pos = POSITIONS[ch.pick(len(POSITIONS))]
            if t.get_origin(W) is t.Final and pos not in ("root", "class_field"):
                return None
            _RC[0] = 0
            wire = _rec_wire(ch, 1)
            annW, xW = at_position(pos, W, wire)
            annT, xT = at_position(pos, wrapmod.RecPlain, wire)
            caches.clear_all()
            reached()
            site = str(getattr(W, "__name__", "Final")) + "@" + pos
            for what, fn in (("unmarshaller", unmarshals.unmarshaller), ("marshaller", marshals.marshaller), ("codec", codecs.codec)):
                try:
                    wrapmod.call_here(fn, annW)
                except Exception as e:  # noqa: BLE001
                    return ("wrapped_type_fails_to_build:" + type(e).__name__, "recursive:" + site, _d(what, annW, e))
            a, b = outcome(unmarshals.unmarshaller(annW), xW), outcome(unmarshals.unmarshaller(annT), xT)
            if a[0] != b[0] or (a[0] and not deep_same(field_or_self(pos, a[1]), field_or_self(pos, b[1]))):
                return ("unmarshal_differs", "recursive:" + site, _d(annW, wire, a, b))
            if a[0] and pos != "class_field":
                ma, mb = outcome(marshals.marshaller(annW), a[1]), outcome(marshals.marshaller(annT), b[1])
                if ma != mb and not (ma[0] and mb[0] and deep_same(ma[1], mb[1])):
                    return ("marshal_differs", "recursive:" + site, _d(annW, ma, mb))
        return None

    return Cond("recwrap/nested_positions", [(f"c{i}", int) for i in range(8)], body, mode="E3", timeout=timeout)


def _drop_parent(m):
    return {"v": m["v"], "kids": [_drop_parent(k) for k in m["kids"]]}


def make_sym(base, kind, depth, timeout):
    """E1: W(T) vs T at the root on an arbitrary symbolic input."""
    from typelib import unmarshals

    name, T = wrapmod.BASES[base]
    with NoTracing():
        _, W = wrapmod.wrap(kind, name, T)
        try:
            UW, err = wrapmod.call_here(unmarshals.unmarshaller, W), None
        except Exception as e:  # noqa: BLE001
            UW, err = None, type(e).__name__
        UT = unmarshals.unmarshaller(T)
    J = JVal(depth, extra=[M.Point(1, 2), b"1"])

    def body(**p):
        if err is not None:
            reached()
            return ("wrapped_type_fails_to_build:" + err, _site([kind], "root", base), "")
        x = J.build(Src(p))
        a = attempt(UW, x)
        b = attempt(UT, x)
        reached()
        if a[0] != b[0]:
            return ("unmarshal_differs", _site([kind], "root", base), _d(x, a, b))
        if a[0] and not deep_same(a[1], b[1]):
            return ("unmarshal_differs", _site([kind], "root", base), _d(x, a, b))
        if not a[0] and type(a[1]) is not type(b[1]):
            return ("unmarshal_differs", _site([kind], "root", base), _d(x, a, b))
        return None

    return Cond(f"sym/{base}/{kind}", jparams(depth), body, mode="E1", timeout=timeout)


def conditions(tier, seed):
    to = 40.0 if tier == "quick" else 180.0
    maxlen = 2 if tier == "quick" else 3
    out = []
    for base in wrapmod.BASES:
        for pos in POSITIONS:
            out.append(make_chain(base, pos, maxlen, to))
        out.append(make_origin(base, to))
    out += [make_refexpr(w, to) for w in range(3)]
    out.append(make_recwrap(to))
    out.append(make_recwrap_nested(to))
    for base in ("int", "list[int]", "Point", "WPoint"):
        for kind in wrapmod.WRAPPERS:
            out.append(make_sym(base, kind, 1 if tier == "quick" else 2, to))
    return out
