"""C04 - scalar values survive their text and numeric wire forms exactly (DESIGN 4, C04)."""
from __future__ import annotations

import datetime
import decimal
import fractions
import pathlib
import uuid

from vlib.cond import Cond
from vlib.fixtures import models as M
from vlib.prelude import SYMBOLIC, Chooser, NoTracing, attempt, deep_realize, reached

UTC = datetime.timezone.utc

META = {
    "functions": ["typelib.serdes.isoformat (duration branch: AST -> z3)", "typelib.serdes.dateparse/_nomalize_dt/_normalize_number",
                  "typelib.serdes.unixtime", "typelib.unmarshals.routines.{String,Bytes,Number,UUID,Cast,Date,DateTime,Time,TimeDelta}Unmarshaller.__call__",
                  "typelib.marshals.routines.{ToString,Cast,ToISOTime,Enum}Marshaller.__call__"],
    "bounds": {
        "quick": "E2 isoformat(timedelta): all days/seconds/microseconds with |total| < 2**31 s, and all whole-second durations with "
                 "|total| < 2**53 s (the region where pendulum's float total is exact) - every template path, z3 5.1 and the z3 4.8.12 "
                 "binary must agree; numeric<->temporal conversions on 20 boundary instants +-2 s (choice variables; the C constructors realise their argument), int and float; E3 text "
                 "round trips over pick-lists (ints to 10**30, float shortest repr, Decimal exponents +-28/+-400, Fractions, UUIDs, "
                 "paths, enums, date edges, offsets +-00:01/+05:30/-23:59, microseconds 0/1/999999, fold) in str and bytes carriers, "
                 "each also after warming the caches with an equal-but-differently-represented value",
        "thorough": "same E2; the E3 lists crossed with all five text carriers",
    },
    "assumptions": [
        "pendulum.Duration attributes are an environment model (years = months = 0, float arithmetic exact inside the stated domains), "
        "validated against the real class on a 1170-point boundary grid on every run; outside those domains (|total| >= 2**31 s with "
        "microseconds, >= 2**53 s) the float total loses precision - witnessed natively, not encoded",
        "text parse-back through pendulum's Rust parser / Decimal / UUID is exhaustive over the pick-lists only",
    ],
}


def _d(*xs):
    return "" if SYMBOLIC else " | ".join(repr(x)[:200] for x in xs)


def _um(T):
    from typelib import unmarshals

    with NoTracing():
        return unmarshals.unmarshaller(T)


# ------------------------------------------------------------------------------------------------ E2
def make_e2(domain):
    from vlib.kern import isodur

    def body(days: int, secs: int, us: int):
        reached()
        return isodur.native_check(days, secs, us)

    def solve():
        from vlib import findings

        kf = findings.load_known("C04")
        return isodur.analyse(domain, classify=lambda f: findings.match_id(kf, f"e2/isoformat/{domain}", f))

    return Cond(f"e2/isoformat/{domain}", [("days", int), ("secs", int), ("us", int)], body, mode="E2", timeout=120.0, solve=solve)


LARGE = [(999999999, 86399, 999999), (30000, 0, 1), (10 ** 6, 1, 1), (104249992, 1, 0), (-999999999, 0, 1), (24856, 86399, 999999),
         (150000000, 86399, 0)]


def make_large(timeout):
    """Outside the encodable region: boundary durations run natively (choice variable)."""
    from vlib.kern import isodur

    def body(c0: int):
        ch = Chooser((c0,))
        d, s, u = LARGE[ch.pick(len(LARGE))]
        with NoTracing():
            reached()
            r = isodur.native_check(d, s, u)
            if r is not None and r[0] in ("meaning_differs",):
                return ("precision_lost", "isoformat:large", r[2])
            if r is not None and r[0] in ("negative_component", "bare_T"):
                return None  # classified by the E2 conditions
            return r

    return Cond("native/isoformat_large", [("c0", int)], body, mode="E3", timeout=timeout)


# ------------------------------------------------------------------------------------------------ E1
# Numeric inputs reach C constructors (timedelta / datetime.fromtimestamp), which realise a symbolic int:
# the integer is a boundary from a pick-list plus a small offset, both choice variables explored exhaustively.
BASES = [0, 1, -1, 59, 60, 3599, 3600, 86399, 86400, -86400, -86401, 604800, 951782400, 951868799, 10 ** 6, -(10 ** 6),
         2 ** 31 - 1, 2 ** 31, -(2 ** 31), 253402300799]


def _window(ch, bound):
    b = BASES[ch.pick(len(BASES))]
    x = b + ch.pick(5) - 2
    return x if -bound <= x <= bound else None


def make_td_int(timeout):
    UT = _um(datetime.timedelta)

    def body(c0: int, c1: int):
        ch = Chooser((c0, c1))
        x = _window(ch, 10 ** 13)
        with NoTracing():
            ok, r = attempt(UT, x)
            reached()
            if not ok:
                return ("int_seconds_rejected", "timedelta", _d(x, r))
            exp = datetime.timedelta(seconds=x)
            if type(r) is not datetime.timedelta or r != exp:
                return ("int_seconds_misread", "timedelta", _d(x, r, exp))
        return None

    return Cond("num/timedelta<-int", [("c0", int), ("c1", int)], body, mode="E3", timeout=timeout)


def make_td_float(timeout):
    UT = _um(datetime.timedelta)

    def body(c0: int, c1: int, c2: int):
        ch = Chooser((c0, c1, c2))
        n = _window(ch, 10 ** 9)
        q = ch.pick(4)
        with NoTracing():
            if n is None:
                return None
            x = n + q / 4  # quarter steps are exact binary fractions
            ok, r = attempt(UT, x)
            reached()
            if not ok:
                return ("float_seconds_rejected", "timedelta", _d(x, r))
            exp = datetime.timedelta(seconds=n, microseconds=q * 250000)
            if r != exp:
                return ("float_seconds_misread", "timedelta", _d(x, r, exp))
        return None

    return Cond("num/timedelta<-float", [("c0", int), ("c1", int), ("c2", int)], body, mode="E3", timeout=timeout)


def make_epoch(T, name, bound, timeout):
    UT = _um(T)

    def body(c0: int, c1: int, c2: int):
        ch = Chooser((c0, c1, c2))
        x = _window(ch, bound)
        as_float = ch.pick(2)
        with NoTracing():
            if x is None:
                return None
            xin = float(x) if as_float else x
            ok, r = attempt(UT, xin)
            reached()
            if not ok:
                return ("epoch_rejected", name, _d(xin, r))
            ref = datetime.datetime(1970, 1, 1, tzinfo=UTC) + datetime.timedelta(seconds=x)
            if T is datetime.date:
                exp = ref.date()
                same = type(r) is datetime.date and r == exp
            elif T is datetime.datetime:
                exp = ref
                same = type(r) is datetime.datetime and r == exp and r.utcoffset() == datetime.timedelta(0)
            else:
                exp = ref.timetz()
                same = type(r) is datetime.time and r == exp and r.utcoffset() == datetime.timedelta(0)
            if not same:
                return ("epoch_misread", name, _d(xin, r, exp))
        return None

    return Cond(f"num/{name}<-epoch", [("c0", int), ("c1", int), ("c2", int)], body, mode="E3", timeout=timeout)


def make_epoch_frac(T, name, timeout):
    """Float epoch seconds with a fractional part: read to the nearest microsecond (|x| < 2**21, where the double
    nearest to x + q/10**6 is closer than 10**-9 to it, so the nearest microsecond is unambiguous)."""
    UT = _um(T)
    secs = [0, 1, 59, 3661, 86399, 86400, 86401, -1, -86400, 1000000, 2 ** 20 + 7]
    micro = [1, 5, 28, 29, 56, 57, 99, 101, 250000, 499999, 500000, 500001, 999998, 999999]

    def body(c0: int, c1: int):
        ch = Chooser((c0, c1))
        with NoTracing():
            x, q = ch.choose(secs), ch.choose(micro)
            xin = x + q / 1_000_000
            ok, r = attempt(UT, xin)
            reached()
            if not ok:
                return ("epoch_rejected", name, _d(xin, r))
            ref = datetime.datetime(1970, 1, 1, tzinfo=UTC) + datetime.timedelta(seconds=x, microseconds=q)
            if T is datetime.datetime:
                same = type(r) is datetime.datetime and r == ref and r.utcoffset() == datetime.timedelta(0)
            elif T is datetime.time:
                same = type(r) is datetime.time and r == ref.timetz() and r.utcoffset() == datetime.timedelta(0)
            else:
                same = type(r) is datetime.date and r == ref.date()
            if not same:
                return ("epoch_misread:fraction", name, _d(xin, r, ref))
        return None

    return Cond(f"num/{name}<-epoch_fraction", [("c0", int), ("c1", int)], body, mode="E3", timeout=timeout)


def make_to_number(timeout):
    UF, UI = _um(float), _um(int)
    TDS = [datetime.timedelta(0), datetime.timedelta(days=1, seconds=1), datetime.timedelta(days=-1), datetime.timedelta(microseconds=1),
           datetime.timedelta(days=400, seconds=86399)]
    DTS = [datetime.datetime(1970, 1, 1, tzinfo=UTC), datetime.datetime(2001, 9, 9, 1, 46, 40, tzinfo=UTC),
           datetime.datetime(1969, 12, 31, 23, 59, 59, tzinfo=UTC), datetime.datetime(2020, 1, 1, 5, 30, tzinfo=datetime.timezone(datetime.timedelta(hours=5, minutes=30)))]
    DS = [datetime.date(1970, 1, 1), datetime.date(1970, 1, 2), datetime.date(1969, 12, 31), datetime.date(2020, 2, 29),
          datetime.date(1, 1, 1), datetime.date(9999, 12, 31), datetime.date(2021, 3, 14)]
    ZONES = ["UTC", "America/New_York", "Asia/Tokyo", "Australia/Lord_Howe"]  # the process's local zone must not matter

    def body(c0: int, c1: int, c2: int):
        import os
        import time

        ch = Chooser((c0, c1, c2))
        fam = ch.pick(3)
        with NoTracing():
            zone = ch.choose(ZONES)
            old = os.environ.get("TZ")
            os.environ["TZ"] = zone
            time.tzset()
            try:
                return inner(ch, fam)
            finally:
                if old is None:
                    os.environ.pop("TZ", None)
                else:
                    os.environ["TZ"] = old
                time.tzset()

    def inner(ch, fam):
        if True:
            if fam == 0:
                v = TDS[ch.pick(len(TDS))]
                exp = v.total_seconds()
            elif fam == 1:
                v = DTS[ch.pick(len(DTS))]
                exp = (v - datetime.datetime(1970, 1, 1, tzinfo=UTC)).total_seconds()
            else:
                v = DS[ch.pick(len(DS))]
                exp = float((v - datetime.date(1970, 1, 1)).days * 86400)
            ok, r = attempt(UF, v)
            reached()
            if not ok or type(r) is not float or r != exp:
                return ("temporal_to_float", type(v).__name__, _d(v, r, exp))
            ok, r = attempt(UI, v)
            if not ok or type(r) is not int or r != int(exp):
                return ("temporal_to_int", type(v).__name__, _d(v, r, exp))
        return None

    return Cond("num/number<-temporal", [("c0", int), ("c1", int), ("c2", int)], body, mode="E3", timeout=timeout)


# ------------------------------------------------------------------------------------------------ E3 text
def aw(h, m=0):
    return datetime.timezone(datetime.timedelta(hours=h, minutes=m))


def _text_cases():
    """(name, T, values, text function, tag function)."""
    big = 10 ** 30
    ints = [0, 1, -1, 7, 10, 123456789, 2 ** 53 + 1, -(2 ** 63), 2 ** 64, big, -big]
    floats = [0.0, 1.5, -2.25, 0.1, 1e-7, 1e16, 1.7976931348623157e308, 5e-324, 123456.789, -0.0]
    decs = [decimal.Decimal(x) for x in ("0", "1.50", "-3.25", "1E+28", "1E-28", "1E+400", "1E-400", "123456789.123456789", "-0")]
    fracs = [fractions.Fraction(0), fractions.Fraction(1, 2), fractions.Fraction(-7, 3), fractions.Fraction(5), fractions.Fraction(10 ** 20, 3)]
    uuids = [uuid.UUID(int=0), uuid.UUID(int=1), uuid.UUID("12345678-1234-5678-1234-567812345678"), uuid.UUID(int=(1 << 128) - 1)]
    paths = [pathlib.Path("a"), pathlib.Path("/x/y.txt"), pathlib.Path("."), pathlib.Path("../up"), pathlib.Path("a b/c")]
    ppaths = [pathlib.PurePosixPath("a"), pathlib.PurePosixPath("/x/y.txt")]
    dates = [datetime.date(1, 1, 1), datetime.date(9999, 12, 31), datetime.date(1970, 1, 1), datetime.date(2020, 2, 29), datetime.date(1999, 12, 31)]
    offs = [UTC, aw(0, 1), aw(0, -1), aw(5, 30), aw(-23, -59), aw(23, 59), aw(-8)]
    dts = []
    for tz in offs:
        dts.append(datetime.datetime(2020, 2, 29, 23, 59, 59, 999999, tzinfo=tz))
        dts.append(datetime.datetime(1970, 1, 1, 0, 0, 0, 1, tzinfo=tz))
    dts += [datetime.datetime(1, 1, 2, tzinfo=UTC), datetime.datetime(9999, 12, 30, 23, 59, 59, tzinfo=UTC),
            datetime.datetime(2021, 10, 31, 1, 30, tzinfo=UTC, fold=1), datetime.datetime(2000, 1, 1, tzinfo=UTC),
            datetime.datetime(3000, 9, 25, 13, 51, 29, 607690, tzinfo=UTC), datetime.datetime(101, 7, 9, 12, 0, 0, 1, tzinfo=UTC),
            datetime.datetime(4395, 1, 28, 0, 23, 29, 999999, tzinfo=aw(10, 17)), datetime.datetime(1, 1, 1, 0, 0, tzinfo=aw(23, 59)),
            datetime.datetime(9999, 12, 31, 23, 59, 59, 999999, tzinfo=aw(-23, -59))]
    times = []
    for tz in offs:
        times.append(datetime.time(23, 59, 59, 999999, tzinfo=tz))
        times.append(datetime.time(0, 0, 0, 1, tzinfo=tz))
    times += [datetime.time(12, 0, tzinfo=UTC), datetime.time(1, 30, tzinfo=UTC, fold=1)]
    tds = [datetime.timedelta(seconds=1), datetime.timedelta(days=7), datetime.timedelta(days=8, seconds=3661, microseconds=1),
           datetime.timedelta(days=400), datetime.timedelta(seconds=59, microseconds=999999), datetime.timedelta(days=14, hours=23),
           datetime.timedelta(0), datetime.timedelta(seconds=-1), datetime.timedelta(days=-7)]
    off0 = datetime.timedelta(0)
    return [
        ("int", int, ints, str, lambda v: "any"),
        ("float", float, floats, repr, lambda v: "any"),
        ("Decimal", decimal.Decimal, decs, str, lambda v: "any"),
        ("Fraction", fractions.Fraction, fracs, str, lambda v: "any"),
        ("UUID", uuid.UUID, uuids, str, lambda v: "any"),
        ("Path", pathlib.Path, paths, str, lambda v: "any"),
        ("PurePosixPath", pathlib.PurePosixPath, ppaths, str, lambda v: "any"),
        ("Color", M.Color, list(M.Color), lambda v: str(v.value), lambda v: "any"),
        ("Mood", M.Mood, list(M.Mood), lambda v: str(v.value), lambda v: "any"),
        ("Level", M.Level, list(M.Level), lambda v: str(v.value), lambda v: "any"),
        ("Tag", M.Tag, list(M.Tag), lambda v: str(v.value), lambda v: "any"),
        ("TagNum", M.TagNum, list(M.TagNum), lambda v: str(v.value), lambda v: "json_like_value"),
        ("Gain", M.Gain, list(M.Gain), lambda v: str(v.value), lambda v: "any"),  # a member whose value is falsy
        ("Swap", M.Swap, list(M.Swap), lambda v: str(v.value), lambda v: "any"),  # values spelled like other members' names
        ("date", datetime.date, dates, lambda v: v.isoformat(), lambda v: "any"),
        ("datetime", datetime.datetime, dts, lambda v: v.isoformat(), lambda v: "any"),
        ("time", datetime.time, times, lambda v: v.isoformat(), lambda v: "utc" if v.utcoffset() == off0 else "nonutc"),
        ("timedelta", datetime.timedelta, tds, None, lambda v: "neg" if v < off0 else "nonneg"),
    ]


def _same(v, r):
    if type(r) is not type(v) and not (isinstance(v, pathlib.PurePath) and isinstance(r, type(v))):
        return False
    if r != v:
        return False
    if isinstance(v, (datetime.datetime, datetime.time)):
        return r.utcoffset() == v.utcoffset() and r.microsecond == v.microsecond
    if isinstance(v, float):
        import math

        return math.copysign(1, r) == math.copysign(1, v)
    return True


def make_text(name, T, vals, textfn, tagfn, carriers, timeout):
    UT = _um(T)

    def body(c0: int, c1: int, c2: int):
        from typelib import serdes

        from vlib import caches

        ch = Chooser((c0, c1, c2))
        v = vals[ch.pick(len(vals))]
        car = carriers[ch.pick(len(carriers))]
        warm = ch.pick(3)  # 0 cold, 1 warm with the same text, 2 warm with an equal-but-different value
        with NoTracing():
            caches.clear_all()
            text = textfn(v) if textfn is not None else serdes.isoformat(v)
            x = {"str": text, "bytes": text.encode(), "bytearray": bytearray(text.encode()),
                 "memoryview": memoryview(text.encode()), "memoryview_rw": memoryview(bytearray(text.encode())),
                 # the text as a field inside a larger buffer
                 "memoryview_slice": memoryview(b"12" + text.encode() + b"0")[2:-1]}[car]
            site = f"{name}:{tagfn(v)}"
            if warm == 1:
                attempt(UT, x)
            elif warm == 2:
                other = _equal_but_different(v)
                if other is not None:
                    attempt(UT, textfn(other) if textfn is not None else serdes.isoformat(other))
                    attempt(serdes.isoformat, other) if isinstance(other, (datetime.date, datetime.time)) else None
            ok, r = attempt(UT, x)
            reached()
            if not ok:
                return ("canonical_text_rejected", site, _d(v, text, car, r))
            if not _same(v, r):
                return ("canonical_text_misread", site, _d(v, text, car, r))
            # the temporal text must mean the same to an independent reader
            if isinstance(v, (datetime.datetime, datetime.date, datetime.time)) and textfn is not None:
                back = type(v).fromisoformat(text)
                if back != v or (hasattr(v, "utcoffset") and back.utcoffset() != v.utcoffset()):
                    return ("iso_text_not_independent", site, _d(v, text, back))
        return None

    return Cond(f"text/{name}", [("c0", int), ("c1", int), ("c2", int)], body, mode="E3", timeout=timeout)


def _equal_but_different(v):
    if isinstance(v, datetime.datetime) and v.tzinfo is not None:
        try:
            return v.astimezone(aw(3))  # same instant, other offset: compares and hashes equal
        except OverflowError:  # at the edges of the calendar the instant has no other spelling
            return None
    if isinstance(v, bool):
        return None
    if type(v) is int and abs(v) < 2 ** 53:
        return float(v)
    if type(v) is float and v.is_integer() and abs(v) < 2 ** 53:
        return int(v)
    if isinstance(v, decimal.Decimal):
        return v.normalize() if v.normalize().as_tuple() != v.as_tuple() else None
    return None


def make_temporal_to_text(timeout):
    """Temporal inputs to str / bytes targets become their ISO text (read back by datetime.fromisoformat)."""
    US, UB = _um(str), _um(bytes)
    vals = [datetime.date(2020, 2, 29), datetime.datetime(2020, 2, 29, 1, 2, 3, 4, tzinfo=aw(5, 30)),
            datetime.datetime(1970, 1, 1, tzinfo=UTC), datetime.time(1, 2, 3, 4, tzinfo=aw(-8)), datetime.time(0, 0, tzinfo=UTC),
            datetime.timedelta(days=8, seconds=1), datetime.timedelta(seconds=3661)]

    def body(c0: int, c1: int):
        ch = Chooser((c0, c1))
        v = vals[ch.pick(len(vals))]
        tgt = ch.pick(2)
        with NoTracing():
            ok, r = attempt(US if tgt == 0 else UB, v)
            reached()
            if not ok:
                return ("temporal_to_text_rejected", type(v).__name__, _d(v, r))
            text = r if tgt == 0 else r.decode()
            if isinstance(v, datetime.timedelta):
                from vlib.kern import isodur

                meaning, defects = isodur.read_text(text)
                truth = (v.days * 86400 + v.seconds) * 1000000 + v.microseconds
                if meaning != truth:
                    return ("temporal_to_text_wrong", "timedelta", _d(v, text))
                return None
            try:
                back = type(v).fromisoformat(text)
            except ValueError:
                return ("temporal_to_text_not_iso", type(v).__name__, _d(v, text))
            if back != v or (hasattr(v, "utcoffset") and back.utcoffset() != v.utcoffset()):
                return ("temporal_to_text_wrong", type(v).__name__, _d(v, text, back))
        return None

    return Cond("text/str<-temporal", [("c0", int), ("c1", int)], body, mode="E3", timeout=timeout)


def conditions(tier, seed):
    to = 30.0 if tier == "quick" else 120.0
    bound = 253402300799
    out = [make_e2("exact"), make_e2("int"), make_large(to), make_td_int(to), make_td_float(to)]
    out += [make_epoch(datetime.date, "date", bound, to), make_epoch(datetime.datetime, "datetime", bound, to),
            make_epoch(datetime.time, "time", bound, to), make_to_number(to), make_temporal_to_text(to),
            make_epoch_frac(datetime.date, "date", to), make_epoch_frac(datetime.datetime, "datetime", to),
            make_epoch_frac(datetime.time, "time", to)]
    carriers = ["str", "bytes", "memoryview_slice"] if tier == "quick" else ["str", "bytes", "bytearray", "memoryview", "memoryview_rw", "memoryview_slice"]
    for name, T, vals, textfn, tagfn in _text_cases():
        out.append(make_text(name, T, vals, textfn, tagfn, carriers, to))
    return out
