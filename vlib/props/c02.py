"""C02 - JSON wire round trip and agreement of all entry points (DESIGN 4, C02)."""
from __future__ import annotations

import json

from vlib import universe
from vlib.cond import Cond
from vlib.prelude import SYMBOLIC, Chooser, NoTracing, attempt, reached
from vlib.props.c05 import deep_same
from vlib.shapes import Bytes, Src, params_for

META = {
    "functions": ["typelib.codecs.codec", "typelib.codecs.Codec.encode/decode", "typelib.api.encode/decode", "typelib.py.compat.json (backend selection)",
                  "typelib.marshals.api.marshal/marshaller", "typelib.unmarshals.api.unmarshal/unmarshaller"],
    "bounds": {
        "quick": "E1: a user-supplied pure-Python tagging encoder/decoder pair on symbolic valid v for the catalogue core (unbounded ints, "
                 "symbolic str len <= 2, containers len <= 2) and the identity coder of bytes-like T on symbolic bytes len <= 3; "
                 "E3: default encoder (orjson) and stdlib json on values assembled from pick-lists by choice variables (ints 0, -1, 7, "
                 "2**53+1, -2**63, 2**63-1; strings '', 'a', quote+backslash, newline+NUL, non-ASCII, 'null', 'None'; floats 0.5, -1e300, 1e-5) for every "
                 "catalogue shape with at most 4 leaves and str-keyed mappings; for optional / union shapes with at most 2 leaves: two values "
                 "through the same codec object, the second then through every entry point",
        "thorough": "shapes with at most 6 leaves; catalogue depth 3",
    },
    "assumptions": ["C encoders (orjson, json) are not symbolically executable: their inputs are realised pick-list values, enumerated exhaustively",
                    "the standard json module is the independent parser of the encoded bytes"],
}


def _d(*xs):
    return "" if SYMBOLIC else " | ".join(repr(x)[:200] for x in xs)


def tag_enc(m):
    return ("TAG", m)


def tag_dec(b):
    if type(b) is not tuple or len(b) != 2 or b[0] != "TAG":
        raise ValueError("not a tagged payload")
    return b[1]


def _has_int_keys(shape):
    return "dict[int" in shape.name


def make_tag(shape, timeout):
    import typelib

    with NoTracing():
        try:
            C = typelib.codec(shape.T, encoder=tag_enc, decoder=tag_dec)
            MT = typelib.marshaller(shape.T)
            err = None
        except Exception as e:  # noqa: BLE001
            C = MT = None
            err = type(e).__name__
    site = shape.name
    from vlib.props.c01 import _has_union

    has_union = _has_union(shape)

    def body(**p):
        if err is not None:
            reached()
            return ("build_failed", site, err)
        v = shape.build(Src(p))
        ok, m = attempt(MT, v)
        if not ok:
            return None
        ok, enc = attempt(C.encode, v)
        reached()
        if not ok:
            return ("codec_encode_raised", site, _d(v, enc))
        if type(enc) is not tuple or enc[0] != "TAG" or not deep_same(enc[1], m):
            return ("codec_encode_differs_from_encoder_of_marshal", site, _d(v, enc, m))
        ok, enc2 = attempt(lambda: typelib.encode(v, t=shape.T, encoder=tag_enc))
        if not ok or not deep_same(enc2[1], m):
            return ("api_encode_differs", site, _d(v, enc2, m))
        ok, dec = attempt(C.decode, enc)
        if not ok:
            return ("codec_decode_raised", site, _d(v, enc, dec))
        if not shape.same(v, dec):
            # a Union whose earlier member also accepts a later member's wire form: the weaker fixpoint law (C01)
            if not (has_union and attempt(C.encode, dec) == (True, enc)):
                return ("codec_roundtrip_neq", site, _d(v, enc, dec))
        ok, dec2 = attempt(lambda: typelib.decode(shape.T, enc, decoder=tag_dec))
        if not ok or not deep_same(dec, dec2):
            return ("api_decode_differs", site, _d(v, dec2))
        return None

    return Cond(f"tag/{site}", params_for(shape), body, mode="E1" if shape.transparent else "E1+picks", timeout=timeout)


def make_bytes(timeout):
    import typelib

    with NoTracing():
        C = typelib.codec(bytes)

    def body(b: bytes):
        if len(b) > 3:
            return None
        ok, e = attempt(C.encode, b)
        reached()
        if not ok or e is not b:
            return ("bytes_not_carried_verbatim:encode", "bytes", _d(b, e))
        ok, dd = attempt(C.decode, b)
        if not ok or type(dd) is not bytes or dd != b:
            return ("bytes_not_carried_verbatim:decode", "bytes", _d(b, dd))
        return None

    return Cond("bytes/bytes", [("b", bytes)], body, mode="E1", timeout=timeout)


INTS = [0, -1, 7, 2 ** 53 + 1, -(2 ** 63), 2 ** 63 - 1]
STRS = ["", "a", '"\\', "\n\x00", "é☃", "null", "None"]
FLOATS = [0.5, -1e300, 1e-5]


class PickSrc(Src):
    """Leaves from pick-lists selected by choice variables (values that reach a C encoder must be concrete)."""

    def __init__(self, ch: Chooser):
        self.ch = ch
        self.narrow = False

    def int(self, lo=None, hi=None):
        if lo is not None and hi is not None:
            return lo + self.ch.pick(hi - lo + 1)
        return self.ch.choose(INTS)

    def sel(self, n):
        return self.ch.pick(n)

    def str(self, maxlen=2):
        return self.ch.choose(STRS)

    def bytes(self, maxlen=2):
        return self.ch.choose([b"", b"a", b"\x00\xff"])

    def bool(self):
        return self.ch.flag()

    def float(self):
        return self.ch.choose(FLOATS)


def _nleaves(shape):
    return len(params_for(shape))


def make_json(shape, cfg, timeout):
    from vlib.props.c01 import _has_union

    has_union = _has_union(shape)
    site = shape.name
    n = max(6, 3 * _nleaves(shape) + 2)

    def body(**p):
        import typelib
        from typelib.py import compat

        ch = Chooser([p[f"c{i}"] for i in range(n)])
        with NoTracing():
            v = shape.build(PickSrc(ch))
            if cfg == "default":
                E, D = compat.json.dumps, compat.json.loads
                C = typelib.codec(shape.T)
                api_enc = lambda: typelib.encode(v, t=shape.T)  # noqa: E731
                api_dec = lambda b: typelib.decode(shape.T, b)  # noqa: E731
            else:
                E, D = _std_dumps, json.loads
                C = typelib.codec(shape.T, encoder=E, decoder=D)
                api_enc = lambda: typelib.encode(v, t=shape.T, encoder=E)  # noqa: E731
                api_dec = lambda b: typelib.decode(shape.T, b, decoder=D)  # noqa: E731
            ok, m = attempt(typelib.marshal, v, t=shape.T)
            if not ok:
                return None
            ok, enc = attempt(C.encode, v)
            reached()
            if not ok:
                return ("codec_encode_raised:" + type(enc).__name__, site, _d(v, enc))
            if type(enc) is not bytes:
                return ("encoded_not_bytes", site, _d(v, enc))
            try:
                parsed = json.loads(enc)
            except ValueError as e:
                return ("encoded_not_valid_json", site, _d(v, enc, e))
            if not deep_same(parsed, m):
                return ("encoded_json_differs_from_marshal", site, _d(v, enc, parsed, m))
            ok, e2 = attempt(E, m)
            if not ok or e2 != enc:
                return ("codec_encode_differs_from_encoder_of_marshal", site, _d(v, enc, e2))
            ok, e3 = attempt(api_enc)
            if not ok or e3 != enc:
                return ("api_encode_differs", site, _d(v, enc, e3))
            ok, dec = attempt(C.decode, enc)
            if not ok:
                return ("codec_decode_raised:" + type(dec).__name__, site, _d(v, enc, dec))
            if not shape.same(v, dec):
                if not (has_union and attempt(C.encode, dec) == (True, enc)):
                    return ("codec_roundtrip_neq", site, _d(v, enc, dec))
            ok, d2 = attempt(api_dec, enc)
            if not ok or not deep_same(dec, d2):
                return ("api_decode_differs", site, _d(v, enc, d2))
            ok, d3 = attempt(lambda: typelib.unmarshal(shape.T, D(enc)))
            if not ok or not deep_same(dec, d3):
                return ("decode_differs_from_unmarshal_of_decoder", site, _d(v, enc, d3))
        return None

    return Cond(f"json/{cfg}/{site}", [(f"c{i}", int) for i in range(n)], body, mode="E3", timeout=timeout)


def make_json_seq(shape, timeout):
    """Two values through the *same* codec object, then the second one through every entry point: the routines a
    codec holds are long-lived, and state left by the first call must not change what the second returns."""
    from vlib.props.c01 import _has_union

    has_union = _has_union(shape)
    site = shape.name
    n = 2 * max(4, 3 * _nleaves(shape) + 2)

    def body(**p):
        import typelib
        from typelib.py import compat

        from vlib import caches

        ch = Chooser([p[f"c{i}"] for i in range(n)])
        with NoTracing():
            v1 = shape.build(PickSrc(ch))
            v2 = shape.build(PickSrc(ch))
            caches.clear_all()
            C = typelib.codec(shape.T)
            ok1, e1 = attempt(C.encode, v1)
            ok2, e2 = attempt(C.encode, v2)
            if not (ok1 and ok2):
                return None
            attempt(C.decode, e1)
            ok, d2 = attempt(C.decode, e2)
            reached()
            if not ok:
                return ("second_decode_raised:" + type(d2).__name__, site, _d(v1, v2, d2))
            if not shape.same(v2, d2) and not (has_union and attempt(C.encode, d2) == (True, e2)):
                return ("second_decode_differs_from_value", site, _d(v1, v2, e2, d2))
            ok, d3 = attempt(lambda: typelib.decode(shape.T, e2))
            if not ok or not deep_same(d2, d3):
                return ("entry_points_disagree_after_history", site, _d(v1, v2, d2, d3))
            ok, d4 = attempt(lambda: typelib.unmarshal(shape.T, compat.json.loads(e2)))
            if not ok or not deep_same(d2, d4):
                return ("entry_points_disagree_after_history", site, _d(v1, v2, d2, d4))
        return None

    return Cond(f"seq/{site}", [(f"c{i}", int) for i in range(n)], body, mode="E3", timeout=timeout)


def _std_dumps(m):
    return json.dumps(m).encode()


def _safe(s):
    """Root-level time / timedelta carry values with known leaf-level findings (KF01, KF02: C01's subject)."""
    from vlib.shapes import PatternS, TimeDeltaS, TimeS

    if s.name == "Pattern":
        return PatternS(True)
    if s.name == "time":
        return TimeS(True)
    if s.name == "timedelta":
        return TimeDeltaS(True)
    return s


def conditions(tier, seed):
    to = 30.0 if tier == "quick" else 120.0
    maxleaves = 4 if tier == "quick" else 6
    out = [make_bytes(to)]
    for s in universe.select(tier, seed):
        if isinstance(s, Bytes):
            continue
        out.append(make_tag(_safe(s), to))
    for s in universe.catalogue(tier):
        if _has_int_keys(s) or _nleaves(s) > maxleaves or isinstance(s, Bytes):
            continue
        for cfg in ("default", "stdlib"):
            out.append(make_json(_safe(universe_shape(s.name, tier)), cfg, to))
        if _nleaves(s) <= (2 if tier == "quick" else 3) and ("Optional" in s.name or "None" in s.name or "Union" in s.name):
            out.append(make_json_seq(_safe(universe_shape(s.name, tier)), to))
    out.append(make_json(_small_team(), "stdlib", to))  # a revisited container annotation, nested two levels
    return out


def _small_team():
    from vlib.fixtures import models as M
    from vlib.shapes import Int, Seq, Struct

    def person(d):
        peers = Seq(list[M.Person], list, universe.Lazy(lambda: person(max(d - 1, 0))), 1 if d > 0 else 0, "list[Person]")
        return Struct(M.Person, {"age": Int(0, 1), "peers": peers}, name="Person")

    return Struct(M.Team, {"members": Seq(list[M.Person], list, person(2), 1, "list[Person]")}, name="Team(small)")


def universe_shape(name, tier):
    """A fresh shape instance per condition (shapes carry no state, but names are made unique per catalogue)."""
    for s in universe.catalogue(tier):
        if s.name == name:
            return s
    raise KeyError(name)
