"""C06 - marshalled output is plain JSON-compatible data, freshly built (DESIGN 4, C06)."""
from __future__ import annotations

import collections
import datetime
import json

from vlib import universe
from vlib.cond import Cond
from vlib.fixtures import models as M
from vlib.prelude import SYMBOLIC, NoTracing, attempt, deep_realize, pick, reached
from vlib.shapes import Bytes, Lit, Src, params_for, plain

META = {
    "functions": ["typelib.marshals.routines.*.__call__", "typelib.marshals.api.DelayedMarshaller", "typelib.serdes.isoformat/iteritems/itervalues"],
    "bounds": {
        "quick": "catalogue core + seed slice (no bytes-like members); valid v: unbounded ints, symbolic str len<=2, containers len<=2; "
                 "subclass instances (IntEnum, str subclass, OrderedDict, deque, pendulum temporals) from pick-lists; "
                 "Literal non-members: symbolic int / str / bool against 3 Literal types; 20 s per condition",
        "thorough": "full catalogue depth<=3; 120 s per condition",
    },
    "assumptions": ["json.dumps is run natively on the realised output", "identity (`is`) between containers is meaningful on engine proxies"],
}


def _mm(T):
    from typelib import marshals

    with NoTracing():
        marshals.marshaller(T)
    return lambda v: marshals.marshal(v, t=T)  # the public entry point


def _d(*xs):
    return "" if SYMBOLIC else " | ".join(repr(x)[:160] for x in xs)


def _containers(o, acc, depth=0):
    """Mutable containers reachable from o (lists, dicts, sets, deques) through containers and instances."""
    if depth > 6:
        return
    to = type(o)
    if to in (list, dict, set, collections.deque, collections.OrderedDict):
        acc.append(o)
    if to in (list, tuple, set, frozenset, collections.deque):
        for x in o:
            _containers(x, acc, depth + 1)
    elif to in (dict, collections.OrderedDict):
        for x in o.values():
            _containers(x, acc, depth + 1)
    elif to in M.__dict__.values() and hasattr(o, "__dataclass_fields__"):
        for f in o.__dataclass_fields__:
            _containers(getattr(o, f), acc, depth + 1)


def make(shape, timeout):
    try:
        MT, err = _mm(shape.T), None
    except Exception as e:  # noqa: BLE001
        MT, err = None, type(e).__name__
    site = shape.name

    def body(**p):
        if err is not None:
            reached()
            return ("build_failed", site, err)
        v = shape.build(Src(p))
        v0 = shape.build(Src(p))
        ok, m = attempt(MT, v)
        if not ok:
            return None  # acceptance of valid values is C01's subject
        reached()
        w = plain(m)
        if w is not None:
            return (w, site, _d(v, m))
        ok, m2 = attempt(MT, v)
        if not ok or m2 != m:
            return ("not_repeatable", site, _d(v, m, m2))
        if not shape.same(v0, v):
            return ("input_mutated", site, _d(v0, v))
        mine, theirs = [], []
        _containers(m, mine)
        _containers(v, theirs)
        for a in mine:
            for b in theirs:
                if a is b:
                    return ("shares_container_with_input", site, _d(v, m))
        if not SYMBOLIC:
            # json acceptance is implied by plain() (exact builtin classes, primitive keys, acyclic by
            # construction); realising the output on a live path would enumerate every leaf value, so
            # the encoder itself is only exercised in the native world (replays, witnesses)
            try:
                json.dumps(m)
            except Exception as e:  # noqa: BLE001
                return ("json_rejects", site, _d(m, type(e).__name__))
        return None

    return Cond(f"plain/{site}", params_for(shape), body, mode="E1" if shape.transparent else "E1+picks", timeout=timeout)


# ---- subclass instances --------------------------------------------------------------------------------
class MyStr(str):
    pass


class MyInt(int):
    pass


def _sub_cases():
    import pendulum

    return [
        ("int<-IntEnum", int, [M.Level.LOW, M.Level.HIGH]),
        ("int<-intsubclass", int, [MyInt(3)]),
        ("int<-bool", int, [True, False]),
        ("str<-strsubclass", str, [MyStr("ab"), MyStr("")]),
        ("str<-strenum", str, [M.Tag.A, M.TagNum.ONE]),
        ("dict[str,int]<-OrderedDict", dict[str, int], [collections.OrderedDict(a=1, b=2), collections.OrderedDict()]),
        ("list[int]<-deque", list[int], [collections.deque([1, 2]), (1, 2), {3}]),
        ("datetime<-pendulum", datetime.datetime, [pendulum.datetime(2020, 1, 2, 3, 4, 5, tz="UTC")]),
        ("date<-pendulum", datetime.date, [pendulum.date(2020, 1, 2)]),
        ("timedelta<-pendulum", datetime.timedelta, [pendulum.duration(days=3, seconds=5), pendulum.duration(seconds=61)]),
        ("list[Level]<-list", list[M.Level], [[M.Level.LOW, M.Level.MID]]),
        ("float<-int", float, [1, 0]),
    ]


def make_sub(name, T, vals, timeout):
    try:
        MT, err = _mm(T), None
    except Exception as e:  # noqa: BLE001
        MT, err = None, type(e).__name__

    def body(k: int):
        if err is not None:
            reached()
            return ("build_failed", name, err)
        v = pick(Src({"i0": k}).sel(len(vals)), vals)
        ok, m = attempt(MT, v)
        if not ok:
            return None
        reached()
        w = plain(m)
        if w is not None:
            return (w, name, _d(v, m, type(m).__name__))
        return None

    return Cond(f"sub/{name}", [("k", int)], body, mode="E1+picks", timeout=timeout)


# ---- Literal non-members must be rejected with ValueError ----------------------------------------------
def make_lit(lit: Lit, timeout):
    try:
        MT, err = _mm(lit.T), None
    except Exception as e:  # noqa: BLE001
        MT, err = None, type(e).__name__
    site = lit.name

    def body(i: int, s: str, b: bool, k: int):
        if err is not None:
            reached()
            return ("build_failed", site, err)
        src = Src({"i0": k})
        kk = src.sel(7)
        if kk >= 4:  # unhashable candidates: still a ValueError, not the error of a failed hash
            x = [["x"], {"x": 1}, bytearray(b"x")][kk - 4]
        else:
            x = i if kk == 0 else (Src({"s0": s}).str(2) if kk == 1 else (b if kk == 2 else None))
        member = False
        for mv in lit.values:
            if type(mv) is type(x) and mv == x:
                member = True
        alias = False
        for mv in lit.values:
            if mv == x and not member:
                alias = True
        ok, m = attempt(MT, x)
        reached()
        if member:
            return None if ok and type(m) is type(x) and m == x else ("member_not_emitted", site, _d(x, m))
        if ok:
            return ("non_member_emitted" + (":bool_int_alias" if alias else ""), site, _d(x, m))
        if not isinstance(m, ValueError):
            return ("non_member_wrong_error", site, _d(x, type(m).__name__))
        return None

    return Cond(f"lit/{site}", [("i", int), ("s", str), ("b", bool), ("k", int)], body, mode="E1", timeout=timeout)


def conditions(tier, seed):
    to = 20.0 if tier == "quick" else 120.0
    out = [make(s, to) for s in universe.catalogue(tier) if not isinstance(s, Bytes)]
    out += [make_sub(n, T, vals, to) for n, T, vals in _sub_cases()]
    out += [make_lit(l, to) for l in (Lit(1, 2, "a"), Lit("x", "y"), Lit(True, 3))]
    # "the same on every call" of a long-lived routine: equal-but-distinct mapping keys in consecutive calls (shared with C05)
    from vlib.props import c05

    out.append(c05.make_keys(to))
    return out
