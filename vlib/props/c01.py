"""C01 - unmarshal(T, marshal(v, t=T)) restores v (DESIGN 4, C01)."""
from __future__ import annotations

from vlib import universe
from vlib.cond import Cond
from vlib.prelude import SYMBOLIC, NoTracing, attempt, reached
from vlib.shapes import Src, UnionS, params_for

META = {
    "functions": [
        "typelib.marshals.routines.*.__call__", "typelib.unmarshals.routines.*.__call__",
        "typelib.marshals.api.DelayedMarshaller", "typelib.unmarshals.api.DelayedUnmarshaller",
        "typelib.serdes.load/decode/iteritems/itervalues/get_items_iter/_is_iterable_of_pairs/isoformat/dateparse",
    ],
    "bounds": {
        "quick": "catalogue depth<=2 (~95 T) + a variant with every str leaf drawn from 7 texts that read as null / JSON / numbers / dates; symbolic str len<=2; containers len<=2; ints unbounded (narrow [-2,2] in "
                 "sets / int dict keys); realised scalars from pick-lists; recursion depth 2; 30 s per condition",
        "thorough": "catalogue depth<=3 (~115 T); same leaf bounds; recursion depth 3; 120 s per condition",
    },
    "assumptions": ["routines are built natively (untraced) before exploration"],
}


def _routines(T):
    from typelib import marshals, unmarshals

    with NoTracing():
        marshals.marshaller(T), unmarshals.unmarshaller(T)  # built here: a build failure is reported as such

    # the calls go through the public entry points (marshal(v, t=T) / unmarshal(T, m)), as the statement is written
    return (lambda v: marshals.marshal(v, t=T)), (lambda m: unmarshals.unmarshal(T, m))


ADV = ("null", "None", "1", "[1]", "true", "2020-01-01", '{"a": 1}')


def make(shape, timeout, adversarial=False):
    try:
        MT, UT = _routines(shape.T)
        err = None
    except Exception as e:  # noqa: BLE001
        MT = UT = None
        err = type(e).__name__
    site0 = shape.name
    tag = getattr(shape, "tag", None)
    has_union = _has_union(shape)

    def body(**p):
        if err is not None:
            reached()
            return ("build_failed", site0, err)
        v = shape.build(Src(p, strs=ADV) if adversarial else Src(p))
        site = site0
        if tag is not None:
            with NoTracing():
                site = site0 + ":" + tag(v)
        ok, m = attempt(MT, v)
        if not ok:
            reached()
            return ("marshal_raised", site, _d(type(m).__name__, v))
        ok, r = attempt(UT, m)
        reached()
        if not ok:
            return ("unmarshal_raised", site, _d(type(r).__name__, v, m))
        if shape.same(v, r):
            return None
        if has_union:
            # weaker law of the statement: the wire form is a fixpoint
            ok, m2 = attempt(MT, r)
            if ok and m2 == m:
                return None
        return ("roundtrip_neq", site, _d("", v, m, r))

    return Cond(("rtx/" if adversarial else "rt/") + site0, params_for(shape), body, mode="E1" if shape.transparent else "E1+picks",
                timeout=timeout, bounds=f"shape {site0}")


def _d(*xs):
    return "" if SYMBOLIC else " | ".join(repr(x)[:120] for x in xs)


def _has_union(shape, seen=None):
    seen = seen or set()
    if id(shape) in seen:
        return False
    seen.add(id(shape))
    if isinstance(shape, UnionS):
        return True
    for k in ("elem", "key", "val", "inner"):
        if k in shape.__dict__ and _has_union(shape.__dict__[k], seen):
            return True
    for s in shape.__dict__.get("elems", ()) or ():
        if _has_union(s, seen):
            return True
    for s in (shape.__dict__.get("fields") or {}).values():
        if _has_union(s, seen):
            return True
    return False


def _has_str(shape, seen=None):
    from vlib.shapes import Str

    seen = seen if seen is not None else set()
    if id(shape) in seen or type(shape).__name__ == "Lazy":
        return False
    seen.add(id(shape))
    if isinstance(shape, Str):
        return shape.picks is None
    d = shape.__dict__
    subs = [d[k] for k in ("elem", "key", "val", "inner") if k in d]
    subs += list(d.get("elems") or ()) + list((d.get("fields") or {}).values())
    return any(_has_str(x, seen) for x in subs)


def conditions(tier, seed):
    from vlib.fixtures import models as M
    from vlib.shapes import EnumS

    to = 30.0 if tier == "quick" else 120.0
    out = [make(s, to) for s in universe.catalogue(tier)]
    # str leaves drawn from texts that read as JSON / null / numbers / dates (adversarial for the text decoders)
    out += [make(s, to, adversarial=True) for s in universe.catalogue(tier) if _has_str(s)]
    out.append(make(EnumS(M.TagNum), to))
    return out
