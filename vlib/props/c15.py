"""C15 - every valid annotation yields working routines (DESIGN 4, C15).

E3 only: derivations of the annotation grammar (U extended with Any, object, bare generics, TypeVars,
Callable, type[X], user generics, classes without hints) are chosen by choice variables; the routines are
built natively."""
from __future__ import annotations

import collections.abc
import datetime
import typing as t

from vlib.cond import Cond
from vlib.fixtures import generics as G
from vlib.fixtures import models as M
from vlib.prelude import SYMBOLIC, Chooser, NoTracing, reached

META = {
    "functions": ["typelib.marshals.api.marshaller", "typelib.unmarshals.api.unmarshaller", "typelib.codecs.codec", "typelib.graph.static_order",
                  "typelib.ctx.TypeContext", "typelib.py.inspection.args/normalize_typevar/isunresolvable/origin",
                  "typelib.*.routines.*.__init__ (context lookups)"],
    "bounds": {
        "quick": "42 leaves (collections.abc spellings, PEP 604 unions of plain classes, int, str, None, Any, object, bare list/dict/tuple/set/frozenset, typing.List/Dict/Tuple/Set/FrozenSet/Sequence/Mapping/MutableMapping/Collection/Iterable/Deque, hint-less classes with a C constructor (Exception / tzinfo subclasses), TypeVar free/bound/constrained, "
                 "a class without hints, a bare and a parameterised user Generic, a dataclass, Callable, type, Decimal, date, Literal, "
                 "Enum) under 14 constructors (list, set, dict[str,.], tuple[., ...], tuple[., .], Optional, Union[., .], Sequence, "
                 "Mapping[str,.], Box[.], Callable[[.], .], type[.], Final, two variadic tuples): depth 1 exhaustively, depth 2 for every "
                 "pair of unary constructors over all leaves; 90 s per production",
        "thorough": "depth 2 for binary constructors too, depth 3 for unary chains (budgeted)",
    },
    "assumptions": ["'working' = construction returns without an exception or RecursionError within the interpreter's default limit; "
                    "pass-through positions are probed with an identity sentinel; behaviour is compared on a 6-value probe vector"],
}

T_free = t.TypeVar("T_free")
T_bound = t.TypeVar("T_bound", bound=int)
T_cons = t.TypeVar("T_cons", int, str)


class Box(t.Generic[T_free]):
    item: T_free

    def __init__(self, item: T_free):
        self.item = item


class NoHints:
    def __init__(self):
        self.z = 1


class TwoBare:  # two unresolvable positions in one structured type
    def __init__(self, a, b=None):
        self.a, self.b = a, b


class AppError(Exception):  # no hints, constructor inherited from a C base without a text signature
    pass


class Zone(datetime.tzinfo):  # likewise
    pass


def _d(*xs):
    return "" if SYMBOLIC else " | ".join(repr(x)[:200] for x in xs)


def leaves():
    import datetime
    import decimal

    return [
        ("int", int), ("str", str), ("None", type(None)), ("Any", t.Any), ("object", object), ("list", list), ("dict", dict),
        ("tuple", tuple), ("set", set), ("List", t.List), ("Dict", t.Dict), ("T", T_free), ("T_bound", T_bound), ("T_cons", T_cons),
        ("NoHints", NoHints), ("Box", Box), ("Box[int]", Box[int]), ("Point", M.Point), ("Callable", t.Callable),
        ("type", type), ("Decimal", decimal.Decimal), ("date", datetime.date), ("Literal[1,'a']", t.Literal[1, "a"]), ("Color", M.Color),
        ("frozenset", frozenset), ("Tuple", t.Tuple), ("Set", t.Set), ("FrozenSet", t.FrozenSet), ("Sequence", t.Sequence),
        ("Mapping", t.Mapping), ("MutableMapping", t.MutableMapping), ("Collection", t.Collection), ("Iterable", t.Iterable),
        ("Deque", t.Deque), ("AppError", AppError), ("Zone", Zone), ("TwoBare", TwoBare), ("SigBox[int]", G.SigBox[int]), ("GPair[str,int]", G.GPair[str, int]), ("GPlain[int]", G.GPlain[int]),
        # PEP 604 unions of plain classes (their text has no bracket)
        ("int|str", int | str), ("int|None", int | None), ("NoHints|None", NoHints | None),
        ("abc.Callable", collections.abc.Callable), ("abc.Mapping", collections.abc.Mapping), ("abc.Sequence", collections.abc.Sequence),
    ]


class _Opaque:
    def __hash__(self):
        return 7


def _bare_value(T):
    """A container of the bare annotation's class with members no routine can convert, or None for other leaves."""
    a, b = _Opaque(), b"\xff raw"
    o = t.get_origin(T) or T
    import collections
    import collections.abc as abc

    if T in (t.Any, object) or not isinstance(o, type) or t.get_args(T):
        return None
    if o in (dict, abc.Mapping, abc.MutableMapping):
        return {"k": a, "j": b}, [a, b]
    if o in (list, abc.Sequence, abc.Collection, abc.Iterable):
        return [a, b, 1], [a, b, 1]
    if o is tuple:
        return (a, b, 1), [a, b, 1]
    if o is set:
        return {a}, [a]
    if o is frozenset:
        return frozenset({a}), [a]
    if o is collections.deque:
        return collections.deque([a, b]), [a, b]
    return None


def check_bare(name, T, built):
    """Members of an unparameterised container have no resolvable type: every one is passed through (same objects, none dropped)."""
    bv = _bare_value(T)
    if bv is None:
        return None
    val, members = bv
    for what in ("unmarshaller", "marshaller"):
        try:
            r = built[what](val)
        except Exception as e:  # noqa: BLE001
            return ("bare_container_rejects_own_instance:" + what, name, _d(e))
        got = list(r.values()) if isinstance(r, dict) else list(r)
        if len(got) != len(members) or not all(any(g is m for g in got) for m in members):
            return ("bare_container_members_not_passed_through:" + what, name, _d(val, r))
        if what == "unmarshaller" and type(r) is not type(val):
            return ("bare_container_class_changed", name, _d(val, r))
    return None


UNARY = [
    ("list[{}]", lambda x: list[x]), ("set[{}]", lambda x: set[x]), ("dict[str,{}]", lambda x: dict[str, x]),
    ("tuple[{},...]", lambda x: tuple[x, ...]), ("Optional[{}]", lambda x: t.Optional[x]), ("Sequence[{}]", lambda x: t.Sequence[x]),
    ("Mapping[str,{}]", lambda x: t.Mapping[str, x]), ("Box[{}]", lambda x: Box[x]), ("type[{}]", lambda x: type[x]),
    ("Final[{}]", lambda x: t.Final[x]), ("Callable[[{}],int]", lambda x: t.Callable[[x], int]),
    ("tuple[tuple[{0},...],tuple[{0},...]]", lambda x: tuple[tuple[x, ...], tuple[x, ...]]),
]
BINARY = [
    ("tuple[{},{}]", lambda x, y: tuple[x, y]), ("Union[{},{}]", lambda x, y: t.Union[x, y]), ("dict[{},{}]", lambda x, y: dict[x, y]),
    ("Callable[[{}],{}]", lambda x, y: t.Callable[[x], y]),
]

PROBES = [1, "1", None, [1], {"a": 1}, "abc"]


def _try_make(fn, *a):
    try:
        return fn(*a), None
    except TypeError as e:  # the annotation itself is not valid at runtime (e.g. Optional[...] of a non-type)
        return None, e


def _where(e):
    """The typelib function that raised (identity of a construction defect)."""
    tb, last = e.__traceback__, "?"
    while tb is not None:
        code = tb.tb_frame.f_code
        if "/typelib/" in code.co_filename:
            last = code.co_filename.rsplit("/typelib/", 1)[1].replace(".py", "").replace("/", ".") + ":" + getattr(code, "co_qualname", code.co_name)
        tb = tb.tb_next
    if isinstance(e, KeyError) and e.args:
        # a missing context entry is identified by the key that was not found (ForwardRef('Any') vs ForwardRef('object') ...)
        k = e.args[0]
        last += ":" + str(getattr(k, "__forward_arg__", getattr(k, "__name__", k)))[:40]
    return last


def _subs(T, depth=0):
    """T and the annotations nested in it, innermost first."""
    out = []
    for a in t.get_args(T) if depth < 6 and t.get_origin(T) is not t.Literal else ():
        for b in (a if isinstance(a, list) else [a]):
            out += _subs(b, depth + 1)
    return out + [T]


def _label(S):
    for nm, x in leaves():
        try:
            if x is S or (type(x) is type(S) and x == S):
                return nm
        except Exception:  # noqa: BLE001, S112
            continue
    o = t.get_origin(S)
    if o is not None:
        return getattr(o, "__name__", str(o)) + "[..]"
    return getattr(S, "__name__", None) or type(S).__name__


def _culprit(T, fn, e):
    """Identity of a construction failure: the smallest nested annotation that fails in the same way on its own."""
    from vlib import caches

    want = (type(e), _where(e))
    for S in _subs(T):
        if S is T:
            break
        try:
            caches.clear_all()
            fn(S)
        except Exception as e2:  # noqa: BLE001
            if (type(e2), _where(e2)) == want:
                return _label(S)
    return _label(T)


TWINS = {}  # a TypeVar argument behaves as its documented normalisation (bound / Union of constraints)


def _twin_leaf(x):
    if x is T_bound:
        return int
    if x is T_cons:
        return t.Union[int, str]
    return None


def check_twin(name, T, T_twin):
    """`list[T_bound]` must behave exactly like `list[int]` (inspection.args normalises TypeVars)."""
    from typelib import unmarshals

    from vlib import caches

    caches.clear_all()
    try:
        a = unmarshals.unmarshaller(T)
        b = unmarshals.unmarshaller(T_twin)
    except Exception:  # noqa: BLE001
        return None  # construction failures are reported by check()
    oa, ob = [], []
    for u, out in ((a, oa), (b, ob)):
        for p in PROBES + [["1", "2"], {"a": "3"}, ("4",)]:
            try:
                r = u(p)
                out.append(("ok", type(r).__name__, repr(r)[:80]))
            except Exception as e:  # noqa: BLE001
                out.append(("exc", type(e).__name__))
    if oa != ob:
        return ("typevar_not_normalised", "probe_vector", _d(name, oa, ob))
    return None


def check(name, T):
    from typelib import codecs, marshals, unmarshals

    from vlib import caches

    caches.clear_all()
    built = {}
    for what, fn in (("marshaller", marshals.marshaller), ("unmarshaller", unmarshals.unmarshaller), ("codec", codecs.codec)):
        try:
            built[what] = fn(T)
        except RecursionError:
            return ("construction_recursion", name, _d(what))
        except Exception as e:  # noqa: BLE001
            return (f"construction_failed:{type(e).__name__}", _where(e) + "|" + _culprit(T, fn, e), _d(what, name, e))
    # pass-through at an unresolvable root
    if T in (t.Any, object, T_free, t.Callable) :
        for s in (object(), b"raw \xe2\x82\xac", b"\xff\xfe", bytearray(b"ab"), memoryview(b"cd"), "text", 7, None, [1], {"k": b"v"}):
            for what in ("marshaller", "unmarshaller"):
                try:
                    if built[what](s) is not s:
                        return ("unresolvable_root_not_passthrough:" + what, name, _d(type(s).__name__))
                except Exception as e:  # noqa: BLE001
                    return ("unresolvable_root_raises:" + what, name, _d(type(s).__name__, e))
    r = check_bare(name, T, built)
    if r is not None:
        return r
    if T is TwoBare:  # every unresolvable member is a pass-through, not only the first one
        s1, s2 = _Opaque(), _Opaque()
        try:
            o = built["unmarshaller"]({"a": s1, "b": s2})
        except Exception as e:  # noqa: BLE001
            return ("unresolvable_member_raises", name, _d(e))
        if not (type(o) is TwoBare and o.a is s1 and o.b is s2):
            return ("unresolvable_member_not_passthrough", name, _d(vars(o)))
        m = built["marshaller"](TwoBare(s1, s2))
        if not (isinstance(m, dict) and m.get("a") is s1 and m.get("b") is s2):
            return ("unresolvable_member_not_passthrough:marshal", name, _d(m))
    # repeatable construction: rebuild (cache hit), rebuild after clearing every cache
    def outcomes(u):
        out = []
        for p in PROBES:
            try:
                r = u(p)
                out.append(("ok", type(r).__name__, repr(r)[:80] if type(r) in (int, str, bool, float, type(None), list, dict, tuple) and "object at" not in repr(r) else ""))
            except Exception as e:  # noqa: BLE001
                out.append(("exc", type(e).__name__))
        return out

    o1 = outcomes(built["unmarshaller"])
    try:
        again = unmarshals.unmarshaller(T)
        caches.clear_all()
        fresh = unmarshals.unmarshaller(T)
    except Exception as e:  # noqa: BLE001
        return ("reconstruction_failed:" + type(e).__name__, _where(e), _d(name, e))
    if outcomes(again) != o1 or outcomes(fresh) != o1:
        return ("construction_not_repeatable", "probe_vector", _d(name, o1, outcomes(fresh)))
    return None


def make_depth1(ci, unary, timeout):
    tmpl, ctor = (UNARY if unary else BINARY)[ci]

    def body(c0: int, c1: int):
        ch = Chooser((c0, c1))
        with NoTracing():
            L = leaves()
            tw = None
            if unary:
                n1, x = L[ch.pick(len(L))]
                T, err = _try_make(ctor, x)
                name = tmpl.format(n1)
                if _twin_leaf(x) is not None:
                    tw, _ = _try_make(ctor, _twin_leaf(x))
            else:
                n1, x = L[ch.pick(len(L))]
                n2, y = L[ch.pick(len(L))]
                T, err = _try_make(ctor, x, y)
                name = tmpl.format(n1, n2)
            if T is None:
                return None  # not a valid annotation at runtime: outside the domain
            reached()
            r = check(name, T)
            if r is None and tw is not None:
                r = check_twin(name, T, tw)
            return r

    return Cond(f"d1/{tmpl}", [("c0", int), ("c1", int)], body, mode="E3", timeout=timeout)


def make_depth2(ci, timeout):
    tmpl, ctor = UNARY[ci]

    def body(c0: int, c1: int):
        ch = Chooser((c0, c1))
        with NoTracing():
            L = leaves()
            t2, c2 = UNARY[ch.pick(len(UNARY))]
            n1, x = L[ch.pick(len(L))]
            inner, err = _try_make(c2, x)
            if inner is None:
                return None
            T, err = _try_make(ctor, inner)
            if T is None:
                return None
            reached()
            return check(tmpl.format(t2.format(n1)), T)

    return Cond(f"d2/{tmpl}", [("c0", int), ("c1", int)], body, mode="E3", timeout=timeout)


def make_leaves(timeout):
    def body(c0: int):
        ch = Chooser((c0,))
        with NoTracing():
            L = leaves()
            n1, x = L[ch.pick(len(L))]
            reached()
            return check(n1, x)

    return Cond("d0/leaves", [("c0", int)], body, mode="E3", timeout=timeout)


def conditions(tier, seed):
    to = 90.0 if tier == "quick" else 240.0
    out = [make_leaves(to)]
    out += [make_depth1(i, True, to) for i in range(len(UNARY))]
    out += [make_depth1(i, False, to) for i in range(len(BINARY))]
    out += [make_depth2(i, to) for i in range(len(UNARY))]
    return out
