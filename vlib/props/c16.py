"""C16 - type-context lookups see through aliases and references (DESIGN 4, C16).

Inductive step instead of history enumeration: the pre-state is an *arbitrary* reachable content of a
TypeContext over a closed key family (each real key present or not, each alias memo present or not,
symbolic stored values), one operation with symbolic opcode and key, then a second lookup with another
symbolic key.  Because the step starts from arbitrary content, histories of any length are covered as
long as the representation invariant (a memoised alias entry equals the entry it aliases) is inductive -
it is assumed of the pre-state and asserted of the post-state."""
from __future__ import annotations

from vlib.cond import Cond
from vlib.fixtures import ctxkeys as K
from vlib.prelude import SYMBOLIC, NoTracing, attempt, pick, reached

META = {
    "functions": ["typelib.ctx.TypeContext.__missing__", "typelib.ctx.TypeContext.get", "dict.__getitem__/__contains__ on TypeContext",
                  "typelib.py.inspection.unwrap", "typelib.py.refs.forwardref"],
    "bounds": {
        "quick": "key family of one base type x 6 stored forms + 5 two-layer lookup keys (NewType over alias / over string alias / of NewType, alias of NewType, Final of NewType) "
                 "(+ a second family for non-interference and a stored reference to a short-name decoy); one top-level base family (seed-rotated of 3) in full, and - every key by subscription, three by get - the nested-class family (dotted qualified name), a bare user Generic, classes of a module not registered in sys.modules, a Literal[...] base; pre-state: 6 presence bits, up to 4 "
                 "alias-memo bits (choice variables, realised by the solver; the step then runs natively), distinct stored tokens; op1 in {[], get(default), in(stored keys)} x 6 keys, "
                 "then op2 = [] / get with a symbolic key; all three base families; 20 s per condition",
        "thorough": "same with both op orders and the second family at full size; 60 s per condition",
    },
    "assumptions": ["the unwraps-to and is-named-by relations are the tables in vlib/fixtures/ctxkeys.py (not computed by typelib)",
                    "memoised alias keys are not observed (the model is asked `in` only for stored keys)"],
}

MISSING = "<missing>"


def model_lookup(stored: dict, i: int, fi: int = 0):
    """Reference model over family indexes: stored maps index -> value."""
    if i in stored:
        return stored[i]
    if i == 5:
        return MISSING
    u = K.UNWRAPS_TO[i]
    if u is not None and u in stored:
        return stored[u]
    r = K.NAMED_BY_OVERRIDE.get(fi, {}).get(i, K.NAMED_BY[i]) if i in K.NAMED_BY_OVERRIDE.get(fi, {}) else K.NAMED_BY[i]
    if r is not None and r in stored:
        return stored[r]
    return MISSING


def _d(*xs):
    return "" if SYMBOLIC else " | ".join(repr(x)[:200] for x in xs)


INTERMEDIATE = {6: 2, 7: 3, 8: 1, 9: 1, 10: 1}  # the one-layer key directly below a two-layer key


def make(fi, op1, k1, use_get2, timeout):
    fam = K.FAMILIES[fi]
    other = K.FAMILIES[(fi + 1) % 3]
    opname = ("getitem", "get", "contains")[op1]
    two_layer = k1 >= 6
    nk2 = 11 if two_layer else 6

    def body(c0: int, c1: int, c2: int, c3: int, c4: int, c5: int, c6: int):
        from vlib.prelude import Chooser

        ch = Chooser((c0, c1, c2, c3, c4, c5, c6))
        with NoTracing():
            return run(ch)

    def run(ch):
        from typelib import ctx

        bits = ch.pick(64)
        pres = [bool((bits >> i) & 1) for i in range(6)]
        vals = [100 + i for i in range(6)]  # distinct tokens: a value served from the wrong key is visible
        dflt = 999
        c = ctx.TypeContext()
        stored = {}
        for i in range(6):
            if pres[i]:
                c[fam[i]] = vals[i]
                stored[i] = vals[i]
        # alias memo entries an earlier lookup may have written (representation invariant assumed of the
        # pre-state): an absent alias key carrying the value of its unwrapped form
        memo = {}
        for i in ((1, 2, 3, 4) if not two_layer else (INTERMEDIATE[k1],)):
            u = K.UNWRAPS_TO[i]
            if i not in stored and u in stored and ch.flag():
                c[fam[i]] = stored[u]
                memo[i] = stored[u]
        c[other[0]] = 500
        c[K.DECOY_REF] = 600  # names the top-level class that shares the nested class's short name
        key1 = fam[k1]
        exp1 = model_lookup(stored, k1, fi)
        if op1 == 0:
            ok, r = attempt(lambda: c[key1])
            got1 = r if ok else (MISSING if isinstance(r, KeyError) else ("ERR", type(r).__name__))
        elif op1 == 1:
            ok, r = attempt(lambda: c.get(key1, dflt))
            got1 = r if ok else ("ERR", type(r).__name__)
            if exp1 == MISSING:
                exp1 = dflt
        else:
            if k1 not in stored:
                return None  # `in` is only asked for stored keys
            ok, r = attempt(lambda: key1 in c)
            got1 = r if ok else ("ERR", type(r).__name__)
            exp1 = True
        reached()
        if not _eq(got1, exp1):
            return ("lookup_disagrees_with_model:" + opname, f"form{k1}", _d(stored, memo, got1, exp1))
        # second lookup: any key of the family, by [] or get
        k2 = ch.pick(nk2)
        key2 = fam[k2]
        exp2 = model_lookup(stored, k2, fi)
        if use_get2:
            ok, r = attempt(lambda: c.get(key2, dflt))
            got2 = r if ok else ("ERR", type(r).__name__)
            if exp2 == MISSING:
                exp2 = dflt
        else:
            ok, r = attempt(lambda: c[key2])
            got2 = r if ok else (MISSING if isinstance(r, KeyError) else ("ERR", type(r).__name__))
        if not _eq(got2, exp2):
            return ("later_lookup_changed", f"form{k1}", _d(stored, memo, k2, got2, exp2))
        # stored keys are always found under themselves, the other family is untouched
        for i in range(6):
            if i in stored:
                ok, r = attempt(lambda: c[fam[i]])
                if not ok or not _eq(r, stored[i]):
                    return ("stored_key_lost", f"form{k1}", _d(stored, i))
        if not _eq(c[other[0]], 500) or other[1] in c or other[5] in c or not _eq(dict.__getitem__(c, K.DECOY_REF), 600):
            return ("other_family_disturbed", f"form{k1}", "")
        # representation invariant after the step: every non-stored family key present in the dict
        # carries exactly the value the model resolves it to
        for i in range(11):
            if i not in stored and fam[i] in c:
                ok, r = attempt(dict.__getitem__, c, fam[i])
                if not ok or not _eq(r, model_lookup(stored, i, fi)):
                    return ("memo_invariant_broken", f"form{k1}", _d(stored, i, r))
        return None

    params = [(f"c{i}", int) for i in range(7)]
    return Cond(f"step/B{fi}/{opname}/form{k1}/then_{'get' if use_get2 else 'getitem'}", params, body, mode="E3", timeout=timeout)


def _eq(a, b):
    if type(a) is str or type(b) is str or type(a) is tuple or type(b) is tuple:
        return type(a) is type(b) and a == b
    if type(a) is bool or type(b) is bool:
        return type(a) is type(b) and a == b
    return a == b


def conditions(tier, seed):
    to = 40.0 if tier == "quick" else 90.0
    out = []
    # families: 0-2 top-level classes, 3 a nested class (dotted qualified name) + short-name decoy, 4 a user Generic used
    # bare, 5 classes of a module that is not registered in sys.modules, 6 a Literal[...] base (not named by any reference)
    full = (0, 1, 2, 3, 4, 5, 6) if tier != "quick" else (seed % 3,)
    for fi in full:
        for op1 in (0, 1, 2):
            for k1 in range(6):
                for g2 in (False, True):
                    out.append(make(fi, op1, k1, g2, to))
        for op1 in (0, 1):
            for k1 in range(6, 11):  # two-layer keys are looked up, never stored
                out.append(make(fi, op1, k1, (k1 + op1) % 2 == 1 if tier == "quick" else False, to))
                if tier != "quick":
                    out.append(make(fi, op1, k1, True, to))
    if tier == "quick":  # the special families: every key by subscription, three keys by get
        for fi in (3, 4, 5, 6):
            for k1 in range(11):
                out.append(make(fi, 0, k1, k1 % 2 == 1, to))
            for k1 in (0, 3, 7):
                out.append(make(fi, 1, k1, False, to))
    return out
