"""Adversarial naming, module B."""
import dataclasses
import typing as t


@dataclasses.dataclass
class Item:
    id: str
    tag: int


@dataclasses.dataclass
class Shared:
    v: str


class Rec(t.TypedDict):
    id: str
    tag: int


def unmarshal_here(ref, x):
    """Issue a string reference from *this* module."""
    import typelib

    return typelib.unmarshal(ref, x)
