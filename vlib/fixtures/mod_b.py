"""Adversarial naming, module B."""
import dataclasses
import typing as t


@dataclasses.dataclass
class Item:
    id: str
    tag: int


@dataclasses.dataclass
class Shared:
    v: str


class Rec(t.TypedDict):
    id: str
    tag: int


from vlib.fixtures import mod_a as _mod_a  # noqa: E402


@dataclasses.dataclass
class ExtOrder(_mod_a.Order):  # the inherited `item: "Item"` means mod_a.Item
    note: "str" = ""


def unmarshal_here(ref, x):
    """Issue a string reference from *this* module."""
    import typelib

    return typelib.unmarshal(ref, x)
