"""Another module issuing references into wrapmod (C11: reference origin)."""


def call_qualified(fn, qualified_ref):
    return fn(qualified_ref)
