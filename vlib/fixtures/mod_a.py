"""Adversarial naming, module A: same class / field names as mod_b with different member types."""
import dataclasses
import typing as t


@dataclasses.dataclass
class Item:
    id: int
    tag: str


@dataclasses.dataclass
class Shared:
    v: int


class Rec(t.NamedTuple):
    id: int
    tag: str


type ItemAlias = Item


@dataclasses.dataclass
class Order:  # string annotations, to be inherited across modules (mod_b binds `Item` to another class)
    item: "Item"
    items: "list[Item]"


def unmarshal_here(ref, x):
    """Issue a string reference from *this* module."""
    import typelib

    return typelib.unmarshal(ref, x)
