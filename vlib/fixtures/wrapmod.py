"""Wrapper chains for C11: NewType / TypeAliasType (value and string) / Final / ClassVar / string reference /
ForwardRef, built on demand and registered under a name in this module so that string forms resolve here."""
import dataclasses
import typing as t
from typing import Literal  # noqa: F401  (resolvable by name from this module)

from vlib.fixtures.models import Point  # noqa: F401  (resolvable by name from this module)

@dataclasses.dataclass
class WPoint:  # a class *defined* in this module (Point above is only imported into it)
    x: int
    y: int


@dataclasses.dataclass
class WOther:
    name: str


@dataclasses.dataclass
class WOuter:
    @dataclasses.dataclass
    class WInner:
        x: int

    inner: "WOuter.WInner"


@dataclasses.dataclass
class RecPlain:
    v: int
    kids: "list[RecPlain]" = dataclasses.field(default_factory=list)
    parent: "t.Optional[RecPlain]" = None


RecPlainId = t.NewType("RecPlainId", RecPlain)          # wrappers *around* the recursive class
RecPlainAlias = t.TypeAliasType("RecPlainAlias", RecPlain)


@dataclasses.dataclass
class RecNT:  # closes its cycle through a NewType
    v: int
    kids: "list[RecNT]" = dataclasses.field(default_factory=list)
    parent: "t.Optional[RecNTRef]" = None


RecNTRef = t.NewType("RecNTRef", RecNT)


@dataclasses.dataclass
class RecTA:  # closes its cycle through a type alias
    v: int
    kids: "list[RecTA]" = dataclasses.field(default_factory=list)
    parent: "t.Optional[RecTARef]" = None


RecTARef = t.TypeAliasType("RecTARef", RecTA)


@dataclasses.dataclass
class RecKids:  # the collection edge goes through the alias
    v: int
    kids: "list[RecKidsRef]" = dataclasses.field(default_factory=list)


RecKidsRef = t.TypeAliasType("RecKidsRef", RecKids)

@dataclasses.dataclass
class LiteralText:  # a class whose *name* starts like the typing construct
    body: str


Counter = t.NewType("Counter", int)  # the name is also an attribute of the typing module
Text = t.TypeAliasType("Text", list[int])

IntT = int
LitRW = t.Literal["r", "w"]
ListInt = list[int]
DictStrInt = dict[str, int]
OptInt = t.Optional[int]

BASES = {"int": ("IntT", int), "list[int]": ("ListInt", list[int]), "Point": ("Point", Point), "WPoint": ("WPoint", WPoint), "dict[str,int]": ("DictStrInt", dict[str, int]), "Literal": ("LitRW", LitRW)}
WRAPPERS = ("NewType", "alias", "alias_str", "Final", "ClassVar", "str", "ForwardRef")
_n = [0]


def _reg(obj, prefix):
    _n[0] += 1
    name = f"{prefix}_{_n[0]}"
    globals()[name] = obj
    return name


def wrap(kind, name, obj):
    """Apply wrapper `kind` to the named type; returns (new name or None, new annotation)."""
    if kind == "NewType":
        nm = f"NT_{_n[0] + 1}"
        w = t.NewType(nm, obj)
        w.__module__ = __name__
        _reg(w, "NT")
        return nm, w
    if kind == "alias":
        nm = f"AL_{_n[0] + 1}"
        w = t.TypeAliasType(nm, obj)
        _reg(w, "AL")
        return nm, w
    if kind == "alias_str":
        if name is None:
            return None, None
        nm = f"AS_{_n[0] + 1}"
        w = t.TypeAliasType(nm, name)
        try:
            w.__module__ = __name__
        except (AttributeError, TypeError):
            pass
        _reg(w, "AS")
        return nm, w
    if kind in ("Final", "ClassVar"):
        try:
            return None, (t.Final if kind == "Final" else t.ClassVar)[obj]
        except TypeError:  # e.g. Final[ClassVar[int]]: not a valid annotation
            return None, None
    if kind == "str":
        if name is None:
            return None, None
        return None, name
    if kind == "ForwardRef":
        if name is None:
            return None, None
        return None, t.ForwardRef(name, module=__name__)
    raise ValueError(kind)


def holder(annotation):
    """A dataclass with one field `x` of the given annotation."""
    cls = dataclasses.make_dataclass("Holder", [("x", annotation)], namespace={"__module__": __name__})
    cls.__module__ = __name__
    return cls


def call_here(fn, ref):
    return fn(ref)


def _nest(fn, ref, depth):
    if depth <= 0:
        return fn(ref)
    return _nest(fn, ref, depth - 1)


def call_nested(fn, ref, depth=3):
    return _nest(fn, ref, depth)
