"""Objects for C18 (serdes.iteritems / itervalues)."""
import collections.abc
import dataclasses
import typing as t


@dataclasses.dataclass
class WithPrivate:
    a: int
    _hidden: int
    b: int
    K: t.ClassVar[int] = 9


class PairFirst(t.NamedTuple):  # first field is a 2-element value
    p: tuple
    n: int


class StrFirst(t.NamedTuple):
    name: str
    n: int


class SlotsOnly:  # no hints, no constructor parameters: fields come from __slots__
    __slots__ = ("a", "_p", "b")


class VarsOnly:  # no hints, no slots, no constructor parameters: fields come from vars()
    pass


def slots_only(a, p, b):
    x = SlotsOnly()
    x.a, x._p, x.b = a, p, b
    return x


def vars_only(a, b, p):
    x = VarsOnly()
    x.a = a
    x.b = b
    x._p = p
    return x


class Hinted:
    a: int
    b: int
    _c: int

    def __init__(self, a, b, c):
        self.a, self.b, self._c = a, b, c


class MyMapping(collections.abc.Mapping):
    def __init__(self, d):
        self._d = dict(d)

    def __getitem__(self, k):
        return self._d[k]

    def __iter__(self):
        return iter(self._d)

    def __len__(self):
        return len(self._d)


class ReversedDict(dict):
    """A dict subclass whose own view of its items differs from the raw table (reversed order)."""

    def items(self):
        return list(reversed(list(dict.items(self))))

    def values(self):
        return [v for _, v in self.items()]

    def keys(self):
        return [k for k, _ in self.items()]

    def __iter__(self):
        return iter(self.keys())


def moved_ordered(d):
    """An OrderedDict whose first key was moved to the end after construction."""
    import collections

    od = collections.OrderedDict(d)
    if od:
        od.move_to_end(next(iter(od)))
    return od


import collections as _c

Row = _c.namedtuple("Row", ["id", "class", "name"], rename=True)  # the invalid name becomes the field `_1`


@dataclasses.dataclass
class Indexable:  # a structured class that offers subscript access but is not iterable
    x: int
    y: int

    def __getitem__(self, i):
        return (self.x, self.y)[i]


class SlotsIndexable:
    __slots__ = ("a", "b")

    def __getitem__(self, key):
        return getattr(self, key)


def slots_indexable(a, b):
    o = SlotsIndexable()
    o.a, o.b = a, b
    return o


def gen(xs):
    for x in xs:
        yield x


class IterOnly:
    """A re-iterable view that offers nothing but __iter__ (no __len__, __contains__, __next__, __getitem__): an iterable
    that is neither a collection nor an iterator.  Its elements live in an attribute, so being mistaken for a structured
    object is visible."""

    def __init__(self, xs):
        self.rows = list(xs)

    def __iter__(self):
        return iter(self.rows)
