"""Holders that combine mod_a / mod_b: equal class names in two modules, equal field names with different
types, diamond sharing, one type reachable through several paths, aliases as members."""
import dataclasses
import typing as t

from vlib.fixtures import mod_a, mod_b


@dataclasses.dataclass
class Holder:
    a: mod_a.Item
    b: mod_b.Item


@dataclasses.dataclass
class Left:
    s: mod_a.Shared
    id: str


@dataclasses.dataclass
class Right:
    s: mod_a.Shared
    id: int


@dataclasses.dataclass
class Top:  # diamond: Shared reachable through Left and Right; `id` has three different types
    l: Left
    r: Right
    id: bool


@dataclasses.dataclass
class Child:
    intersection: str


@dataclasses.dataclass
class Parent:
    intersection: int
    child: Child


@dataclasses.dataclass
class Both:
    sa: mod_a.Shared
    sb: mod_b.Shared
    items: list[mod_b.Item]
    by_name: dict[str, mod_a.Item]


@dataclasses.dataclass
class Aliased:
    x: mod_a.ItemAlias
    y: mod_b.Item
    recs: tuple[mod_a.Rec, mod_b.Rec]


@dataclasses.dataclass
class Twice:  # one member type on two paths with different wrappers
    p: mod_a.Item
    q: t.Optional[mod_a.Item]
    r: list[mod_a.Item]


@dataclasses.dataclass
class Options:  # module-level class with the same simple name as Job.Options, other field types
    level: str


@dataclasses.dataclass
class Job:
    @dataclasses.dataclass
    class Options:
        level: int

    opts: "Job.Options"


@dataclasses.dataclass
class Stage:
    opts: Job.Options


@dataclasses.dataclass
class Pipeline:  # Job.Options is reached twice: through Stage and directly
    first: Stage
    opts: Job.Options


@dataclasses.dataclass
class Pipeline2:
    opts: Job.Options
    first: Stage
    plain: Options
