"""Fixture classes for the type universe U (DESIGN 3).  Importable in both worlds."""

import dataclasses
import decimal
import datetime
import enum
import typing as t
import uuid

import typing_extensions as te


class Slug(str):
    """A user-defined str subclass."""


# ---------------------------------------------------------------------------------------------- enums
class Color(enum.Enum):
    RED = 1
    GREEN = 2
    BLUE = 3


class Mood(enum.Enum):
    HAPPY = "happy"
    SAD = "sad"


class Level(enum.IntEnum):
    LOW = 1
    MID = 5
    HIGH = 9


class Tag(str, enum.Enum):
    A = "a"
    B = "bee"


class TagNum(str, enum.Enum):  # str-mixin whose values read as JSON / numbers (adversarial)
    ONE = "1"
    NULL = "null"


# ----------------------------------------------------------------------------------------- dataclasses
@dataclasses.dataclass
class Point:
    x: int
    y: int


@dataclasses.dataclass(slots=True)
class SPoint:
    x: int
    name: str


@dataclasses.dataclass(frozen=True)
class FPoint:
    x: int
    flag: bool


@dataclasses.dataclass(kw_only=True)
class KPoint:
    x: int
    y: str = "d"


@dataclasses.dataclass
class Doc:  # an annotated private field
    name: str
    _rev: int = 0


@dataclasses.dataclass
class Line:
    a: Point
    b: Point
    label: str


@dataclasses.dataclass
class Bag:
    items: list[int]
    names: dict[str, int]
    maybe: t.Optional[int]


@dataclasses.dataclass
class Mixed:
    p: Point
    tags: list[str]
    pair: tuple[int, str]
    opt: t.Optional[Point]


# --------------------------------------------------------------------------------- other structured kinds
class NT(t.NamedTuple):
    a: int
    b: str


class NTS(t.NamedTuple):  # first field is a string (adversarial: 2-character first field)
    name: str
    n: int


class SubNT(NT):
    """A subclass of a named tuple without fields of its own (inherits _fields)."""


import collections as _collections  # noqa: E402

PlainNT = _collections.namedtuple("PlainNT", "a b")  # un-annotated named tuple


class TD(t.TypedDict):
    a: int
    b: str


class TDN(t.TypedDict):
    a: int
    b: te.NotRequired[str]


class TDBase(t.TypedDict):
    id: int


class TDChild(TDBase, total=False):  # `id` stays required although this class is total=False
    nick: str


class TDReq(t.TypedDict, total=False):
    key: te.Required[int]
    note: str


class Plain:
    a: int
    b: str

    def __init__(self, a: int, b: str):
        self.a = a
        self.b = b

    def __eq__(self, o):
        return type(o) is Plain and (o.a, o.b) == (self.a, self.b)

    def __hash__(self):
        return hash((self.a, self.b))

    def __repr__(self):
        return f"Plain({self.a!r}, {self.b!r})"


class Slotted:
    __slots__ = ("a", "b")
    a: int
    b: str

    def __init__(self, a: int, b: str):
        self.a = a
        self.b = b

    def __eq__(self, o):
        return type(o) is Slotted and (o.a, o.b) == (self.a, self.b)

    def __hash__(self):
        return hash((self.a, self.b))

    def __repr__(self):
        return f"Slotted({self.a!r}, {self.b!r})"


class Unrelated:
    """An instance of a class that has nothing to do with any target type."""

    def __init__(self, q=1):
        self.q = q


# ------------------------------------------------------------------------------------------- recursion
@dataclasses.dataclass
class Tree:
    v: int
    kids: list["Tree"] = dataclasses.field(default_factory=list)


@dataclasses.dataclass
class Chain:
    v: int
    next: t.Optional["Chain"] = None


@dataclasses.dataclass
class DNode:
    v: int
    sub: dict[str, "DNode"] = dataclasses.field(default_factory=dict)


@dataclasses.dataclass
class TNode:
    v: int
    kids: tuple["TNode", ...] = ()


@dataclasses.dataclass
class PNode:  # PEP 604 spelling in a field
    v: int
    next: "PNode | None" = None


@dataclasses.dataclass
class Ping:
    v: int
    pong: t.Optional["Pong"] = None


@dataclasses.dataclass
class Pong:
    w: str
    ping: t.Optional[Ping] = None


@dataclasses.dataclass
class Dept:
    name: str
    staff: list["Emp"] = dataclasses.field(default_factory=list)


@dataclasses.dataclass
class Emp:
    n: int
    dept: t.Optional[Dept] = None


class NTree(t.NamedTuple):  # recursive NamedTuple (a tuple subclass)
    v: int
    parent: t.Optional["NTree"] = None


class TDNode(t.TypedDict):  # recursive TypedDict (a dict at runtime)
    v: int
    kids: list["TDNode"]


@dataclasses.dataclass
class Host:  # dataclass <-> NamedTuple
    v: int
    item: t.Optional["Item"] = None


class Item(t.NamedTuple):
    n: int
    host: t.Optional[Host] = None


@dataclasses.dataclass
class Cyc:  # a cycle with one *direct* class member (Ind.direct)
    v: int
    back: t.Optional["Ind"] = None


@dataclasses.dataclass
class Ind:
    v: int
    direct: Cyc


# ---------------------------------------------------------------------------------------------- wrappers
UserId = t.NewType("UserId", int)
Name = t.NewType("Name", str)
type IntList = list[int]
type PointAlias = Point
type StrAlias = "str"
type JsonLike = "int | str | list[JsonLike]"
IntAliasTE = t.TypeAliasType("IntAliasTE", int)
IntValue = t.TypeAliasType("IntValue", int)
RecAlias = t.TypeAliasType("RecAlias", "dict[str, RecAlias | IntValue]")
OptRec = t.TypeAliasType("OptRec", "t.Optional[dict[str, OptRec]]")  # a recursive alias whose value is a union


@dataclasses.dataclass
class Order:  # a computed field that the constructor does not take
    qty: int
    price: int
    total: int = dataclasses.field(init=False, default=0)

    def __post_init__(self):
        self.total = self.qty * self.price


@dataclasses.dataclass
class Invoice:
    lines: list[Order]


@dataclasses.dataclass
class WithMeta:  # a bare (unsubscripted) mapping member
    name: str
    meta: dict


@dataclasses.dataclass
class NFHolder:  # optional members written None-first (their __args__ start with NoneType)
    when: None | datetime.date = None
    who: t.Union[None, FPoint] = None


class Swap(enum.Enum):  # each member's value is spelled like the *other* member's name
    UP = "DOWN"
    DOWN = "UP"


@dataclasses.dataclass
class WithCV:  # a ClassVar pseudo-field next to real fields
    x: int
    registry: t.ClassVar[dict] = {}
    label: str = "l"


class Kind(str, enum.Enum):  # str-mixin whose values are other members' names
    A = "B"
    B = "A"


class InitOnly:
    """A plain class whose only hints are the *string* annotations of its constructor."""

    def __init__(self, id: "int", placed: "datetime.date", tags: "list[int]"):
        self.id, self.placed, self.tags = id, placed, tags

    def __eq__(self, other):
        return type(other) is InitOnly and vars(other) == vars(self)

    def __repr__(self):
        return f"InitOnly({self.id!r}, {self.placed!r}, {self.tags!r})"


class TaggedUUID(uuid.UUID):
    pass


class Gain(enum.IntEnum):  # a member whose value is falsy
    MUTE = 0
    LOW = 1


class Perm(enum.Flag):
    R = 4
    W = 2
    X = 1


class Mode(enum.IntFlag):
    READ = 1
    WRITE = 2


@dataclasses.dataclass
class Job:  # optional members whose declared default is not None
    name: str
    retries: t.Optional[int] = 3
    tags: t.Optional[list[str]] = dataclasses.field(default_factory=list)


class TDOpt(t.TypedDict, total=False):  # non-required keys that may hold None
    a: t.Optional[int]
    b: t.Optional[str]


class TDTree(t.TypedDict, total=False):  # refers back to itself by a bare (not Optional, not container) field
    weight: decimal.Decimal
    left: "TDTree"
    right: "TDTree"


UnionRec = t.TypeAliasType("UnionRec", "t.Union[list[UnionRec], int]")


@dataclasses.dataclass
class Person:
    age: int
    peers: list["Person"] = dataclasses.field(default_factory=list)


@dataclasses.dataclass
class Team:  # reaches list[Person] before Person itself does (the annotation is revisited inside the recursive class)
    members: list[Person]


import fractions  # noqa: E402


@dataclasses.dataclass
class Ledger:  # members whose zero / empty values still need converting
    balance: decimal.Decimal
    share: fractions.Fraction
    wait: datetime.timedelta
    tags: tuple[str, ...] = ()


@dataclasses.dataclass(slots=True)
class SBase:
    ident: str = "base-default"
    rank: int = 0


@dataclasses.dataclass(slots=True)
class SChild(SBase):  # a slotted dataclass that inherits fields from a slotted base (its own __slots__ holds `label` only)
    label: str = ""


@dataclasses.dataclass
class Span:
    lo: int
    hi: int


@dataclasses.dataclass
class Window:  # a structured member whose leaf types are all seen again right after it
    span: Span
    size: int


class Record:  # annotated plain classes with inheritance: the subclass adds an annotation of its own
    id: int
    created: datetime.date

    def __init__(self, id, created):
        self.id, self.created = id, created

    def __eq__(self, o):
        return type(o) is type(self) and vars(o) == vars(self)

    def __repr__(self):
        return f"{type(self).__name__}({vars(self)!r})"


class NamedRecord(Record):
    name: str

    def __init__(self, id, created, name):
        super().__init__(id, created)
        self.name = name


DottedRec = t.TypeAliasType("DottedRec", "datetime.date | dict[str, DottedRec]")  # a dotted name inside a recursive string alias
