"""Closed key families for C16 (TypeContext): base type x {itself, NewType, alias, string alias, Final, ForwardRef}."""
import typing as t


class B0:
    pass


class B1:
    pass


class B2:
    pass


N0 = t.NewType("N0", B0)
N1 = t.NewType("N1", B1)
N2 = t.NewType("N2", B2)
type A0 = B0
type A1 = B1
type A2 = B2
type S0 = "B0"
type S1 = "B1"
type S2 = "B2"
F0 = t.Final[B0]
F1 = t.Final[B1]
F2 = t.Final[B2]
R0 = t.ForwardRef("B0", module=__name__, is_class=True)
R1 = t.ForwardRef("B1", module=__name__, is_class=True)
R2 = t.ForwardRef("B2", module=__name__, is_class=True)



class Order:
    class Item:  # a nested class: its qualified name is dotted
        pass


class Item:  # the decoy: a top-level class with the nested class's short name
    pass


N3 = t.NewType("N3", Order.Item)
type A3 = Order.Item
type S3 = "Order.Item"
F3 = t.Final[Order.Item]
R3 = t.ForwardRef("Order.Item", module=__name__, is_class=True)
DECOY_REF = t.ForwardRef("Item", module=__name__, is_class=True)


def _extras(B, N, A, S, i):
    """Two-layer keys: 6 NewType over alias, 7 NewType over string alias, 8 NewType of NewType, 9 alias of NewType,
    10 Final of NewType."""
    return [t.NewType(f"NA{i}", A), t.NewType(f"NS{i}", S), t.NewType(f"NN{i}", N), t.TypeAliasType(f"AN{i}", N), t.Final[N]]


_T = t.TypeVar("_T")


class GBox(t.Generic[_T]):  # a user generic, used bare as a key
    pass


N4 = t.NewType("N4", GBox)
type A4 = GBox
type S4 = "GBox"
F4 = t.Final[GBox]
R4 = t.ForwardRef("GBox", module=__name__, is_class=True)

# a family whose classes live in a module that is *not* registered in sys.modules (plug-in loaders, exec'd code)
import types as _types  # noqa: E402

_UNREG = _types.ModuleType("vlib_c16_unregistered")
exec(  # noqa: S102
    "import typing as t\n"
    "class U5:\n    pass\n"
    "N5 = t.NewType('N5', U5)\n"
    "A5 = t.TypeAliasType('A5', U5)\n"
    "S5 = t.TypeAliasType('S5', 'U5')\n"
    "F5 = t.Final[U5]\n"
    "R5 = t.ForwardRef('U5', module=__name__, is_class=True)\n",
    _UNREG.__dict__,
)
U5, N5, A5, S5, F5, R5 = (_UNREG.__dict__[k] for k in ("U5", "N5", "A5", "S5", "F5", "R5"))

from typing import Literal  # noqa: E402,F401  (named by the string alias below)

L6 = t.Literal["a", "b"]  # a subscripted special form as the base: unwrap must still see through Final / NewType / alias
N6 = t.NewType("N6", L6)
type A6 = L6
type S6 = "Literal['a', 'b']"
F6 = t.Final[L6]
R6 = t.ForwardRef("Literal['a', 'b']", module=__name__, is_class=True)

# index: 0 itself, 1 NewType, 2 alias, 3 string alias, 4 Final, 5 ForwardRef, 6.. two-layer keys (lookup only)
FAMILIES = [
    [B0, N0, A0, S0, F0, R0] + _extras(B0, N0, A0, S0, 0),
    [B1, N1, A1, S1, F1, R1] + _extras(B1, N1, A1, S1, 1),
    [B2, N2, A2, S2, F2, R2] + _extras(B2, N2, A2, S2, 2),
    [Order.Item, N3, A3, S3, F3, R3] + _extras(Order.Item, N3, A3, S3, 3),
    [GBox, N4, A4, S4, F4, R4] + _extras(GBox, N4, A4, S4, 4),
    [U5, N5, A5, S5, F5, R5] + _extras(U5, N5, A5, S5, 5),
    [L6, N6, A6, S6, F6, R6] + _extras(L6, N6, A6, S6, 6),
]
# no forward reference *names* a subscripted special form (family 6): only classes are named by their reference
NAMED_BY_OVERRIDE = {6: {0: None}}
# The reference semantics, written down here and nowhere derived from typelib:
# what each key unwraps to (index within its family; None = it is its own unwrapped form / not unwrappable)
UNWRAPS_TO = {0: None, 1: 0, 2: 0, 3: 5, 4: 0, 5: None, 6: 0, 7: 5, 8: 0, 9: 0, 10: 0}
# which family member is "a forward reference naming" the key (only the class itself is named by R)
NAMED_BY = {0: 5, 1: None, 2: None, 3: None, 4: None, 5: None, 6: None, 7: None, 8: None, 9: None, 10: None}
