"""User generics for C15.  NOTE: no `from __future__ import annotations` here - the annotations below are the
TypeVar *objects*, not strings (a constructor annotated with strings takes another path through typelib)."""
import dataclasses
import typing as t

T = t.TypeVar("T")
K = t.TypeVar("K", bound=str)


class SigBox(t.Generic[T]):  # the only hints are those of the constructor
    def __init__(self, item: T, n: int = 0):
        self.item, self.n = item, n


@dataclasses.dataclass
class GPair(t.Generic[K, T]):
    key: K
    value: T


class GPlain(t.Generic[T]):  # the constructor does not mention the type variable
    def __init__(self, n: int = 0):
        self.n = n
