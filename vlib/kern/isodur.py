"""E2: serdes.isoformat's duration branch, translated from the current source into z3 (DESIGN 2.2 / C04).

The function's AST is interpreted symbolically: every truthiness test on a symbolic integer forks, so each
path yields a *text template with integer holes* plus a guard.  The template is read by a reference ISO
8601 duration grammar written here; the query `domain & guard & not(property)` goes to z3 (mathematical
integers).  `pendulum.duration(...)`'s observable attributes are an environment model transcribed from
pendulum's Duration.__new__ and validated against the real class on a boundary grid on every run.
"""
from __future__ import annotations

import ast
import os
import re
import subprocess
import time

try:
    import z3
except ImportError:  # native world: only the replay oracle (read_text / native_check) is used
    z3 = None

REPO = os.environ.get("VERIF_REPO", "/repo")
SRC = os.path.join(REPO, "src", "typelib", "serdes.py")
TIMEOUT_MS = 20000


class Unsupported(Exception):
    pass


class Hole:
    def __init__(self, e, width=0):
        self.e, self.width = e, width


def _z(x):
    return z3.IntVal(x) if isinstance(x, int) and not isinstance(x, bool) else x


class Interp:
    """Evaluates the expression subset used by isoformat; symbolic truthiness consults a decision list."""

    def __init__(self, env, decisions):
        self.env, self.decisions, self.i, self.guard = env, decisions, 0, []

    def decide(self, cond):
        c = z3.simplify(cond)
        if z3.is_true(c):
            return True
        if z3.is_false(c):
            return False
        if self.i == len(self.decisions):
            self.decisions.append(True)
        d = self.decisions[self.i]
        self.i += 1
        self.guard.append(cond if d else z3.Not(cond))
        return d

    def truth(self, v):
        if isinstance(v, (list, str, tuple)):
            return len(v) > 0
        if isinstance(v, bool):
            return v
        if isinstance(v, int):
            return v != 0
        if z3.is_bool(v):
            return self.decide(v)
        return self.decide(v != 0)

    def ev(self, n):
        m = getattr(self, "ev_" + type(n).__name__, None)
        if m is None:
            raise Unsupported(type(n).__name__)
        return m(n)

    def ev_Constant(self, n):
        return n.value

    def ev_Name(self, n):
        if n.id not in self.env:
            raise Unsupported("name " + n.id)
        return self.env[n.id]

    def ev_Attribute(self, n):
        base = self.ev(n.value)
        if not isinstance(base, dict) or n.attr not in base:
            raise Unsupported("attribute " + n.attr)
        return base[n.attr]

    def ev_Tuple(self, n):
        return tuple(self.ev(e) for e in n.elts)

    def ev_IfExp(self, n):
        return self.ev(n.body) if self.truth(self.ev(n.test)) else self.ev(n.orelse)

    def ev_BinOp(self, n):
        a, b = self.ev(n.left), self.ev(n.right)
        if isinstance(a, (list, str)) or isinstance(b, (list, str)):
            if isinstance(n.op, ast.Add):
                return self.text(a) + self.text(b)
            raise Unsupported("text binop")
        op = type(n.op)
        if op is ast.Add:
            return a + b
        if op is ast.Sub:
            return a - b
        if op is ast.Mult:
            if isinstance(a, int) or isinstance(b, int):
                return a * b
            raise Unsupported("nonlinear multiplication")
        if op in (ast.FloorDiv, ast.Mod):
            if not isinstance(b, int) or b <= 0:
                raise Unsupported("division by a non-constant")
            return (_z(a) / b) if op is ast.FloorDiv else (_z(a) % b)  # z3 Int div/mod = floor semantics for b > 0
        raise Unsupported(op.__name__)

    def ev_UnaryOp(self, n):
        v = self.ev(n.operand)
        if isinstance(n.op, ast.USub):
            return -v
        if isinstance(n.op, ast.Not):
            return not self.truth(v)
        raise Unsupported(type(n.op).__name__)

    def ev_Compare(self, n):
        if len(n.ops) != 1:
            raise Unsupported("chained comparison")
        a, b = _z(self.ev(n.left)), _z(self.ev(n.comparators[0]))
        op = type(n.ops[0])
        tab = {ast.Lt: lambda: a < b, ast.LtE: lambda: a <= b, ast.Gt: lambda: a > b, ast.GtE: lambda: a >= b,
               ast.Eq: lambda: a == b, ast.NotEq: lambda: a != b}
        if op not in tab:
            raise Unsupported(op.__name__)
        return tab[op]()

    def ev_BoolOp(self, n):
        if isinstance(n.op, ast.And):
            v = True
            for e in n.values:
                v = self.ev(e)
                if not self.truth(v):
                    return v
            return v
        v = False
        for e in n.values:
            v = self.ev(e)
            if self.truth(v):
                return v
        return v

    def ev_JoinedStr(self, n):
        out = []
        for v in n.values:
            if isinstance(v, ast.Constant):
                out.append(v.value)
                continue
            if v.conversion not in (-1, 115):  # plain or !s
                raise Unsupported("conversion")
            val = self.ev(v.value)
            width = 0
            if v.format_spec is not None:
                spec = "".join(c.value for c in v.format_spec.values if isinstance(c, ast.Constant))
                m = re.fullmatch(r"0(\d+)", spec)
                if not m:
                    raise Unsupported("format spec " + spec)
                width = int(m.group(1))
            out.extend(self.text(val, width))
        return out

    def text(self, val, width=0):
        if isinstance(val, list):
            return val
        if isinstance(val, str):
            return [val]
        return [Hole(_z(val), width)]

    def ev_Call(self, n):
        f = n.func
        if not (isinstance(f, ast.Attribute) and isinstance(f.value, ast.Constant) and f.value.value == "" and f.attr == "join"
                and len(n.args) == 1 and isinstance(n.args[0], ast.GeneratorExp)):
            raise Unsupported("call")
        gen = n.args[0]
        if len(gen.generators) != 1:
            raise Unsupported("nested generator")
        (g,) = gen.generators
        out = []
        for item in self.ev(g.iter):
            if isinstance(g.target, ast.Tuple):
                binds = dict(zip([e.id for e in g.target.elts], item))
            else:
                binds = {g.target.id: item}
            sub = Interp({**self.env, **binds}, self.decisions)
            sub.i, sub.guard = self.i, self.guard
            ok = all(sub.truth(sub.ev(c)) for c in g.ifs)
            if ok:
                out.extend(sub.text(sub.ev(gen.elt)))
            self.i = sub.i
        return out


def duration_model(days, secs, us):
    """pendulum.Duration(days=, seconds=, microseconds=) for years = months = 0, float arithmetic idealised
    as exact (valid where it *is* exact: see the domains in `analyse`)."""
    total_us = (days * 86400 + secs) * 1000000 + us
    neg = total_us < 0
    a_us = z3.If(neg, -total_us, total_us)
    a_s = a_us / 1000000

    def sgn(x):  # multiplication by pendulum's m = +/-1, kept linear
        return z3.If(neg, -x, x)

    asec = a_s % 86400
    ad = a_s / 86400
    return {
        "years": 0, "months": 0, "weeks": sgn(ad / 7), "remaining_days": sgn(ad % 7),
        "days": days, "seconds": sgn(asec),
        "microseconds": sgn(a_us % 1000000),
        "hours": sgn(asec / 3600 % 24), "minutes": sgn(asec / 60 % 60), "remaining_seconds": sgn(asec % 60),
    }


def real_duration_attrs(d, s, u):
    import pendulum

    du = pendulum.duration(days=d, seconds=s, microseconds=u)
    return {k: getattr(du, k) for k in ("years", "months", "weeks", "remaining_days", "hours", "minutes", "remaining_seconds",
                                          "microseconds")}


def load_function():
    tree = ast.parse(open(SRC).read())
    fn = next(n for n in tree.body if isinstance(n, ast.FunctionDef) and n.name == "isoformat")
    body = [s for s in fn.body if not (isinstance(s, ast.Expr) and isinstance(s.value, ast.Constant))]
    # statement 0: the date/time early return; statement 1: `dur = ... pendulum.duration(...)` (environment)
    if not (isinstance(body[0], ast.If) and isinstance(body[1], (ast.AnnAssign, ast.Assign))):
        raise Unsupported("unexpected prologue of isoformat")
    tgt = body[1].target if isinstance(body[1], ast.AnnAssign) else body[1].targets[0]
    if not (isinstance(tgt, ast.Name) and "pendulum.duration" in ast.unparse(body[1].value) and "dt.days" in ast.unparse(body[1].value)
            and "dt.seconds" in ast.unparse(body[1].value) and "dt.microseconds" in ast.unparse(body[1].value)):
        raise Unsupported("the duration is not built by pendulum.duration(days=dt.days, seconds=dt.seconds, microseconds=dt.microseconds)")
    return fn, tgt.id, body[2:]


def templates(days, secs, us):
    fn, durname, stmts = load_function()

    def run_path(decisions):
        env = {durname: duration_model(days, secs, us)}
        it = Interp(env, decisions)
        for s in stmts:
            if isinstance(s, ast.Assign) and len(s.targets) == 1 and isinstance(s.targets[0], ast.Name):
                env[s.targets[0].id] = it.ev(s.value)
            elif isinstance(s, ast.AnnAssign) and isinstance(s.target, ast.Name) and s.value is not None:
                env[s.target.id] = it.ev(s.value)
            elif isinstance(s, ast.Return):
                return it.guard, it.text(it.ev(s.value))
            else:
                raise Unsupported(type(s).__name__)
        raise Unsupported("no return")

    paths, stack = [], [[]]
    while stack:
        dec = stack.pop()
        n0 = len(dec)
        guard, tmpl = run_path(dec)
        paths.append((list(dec), guard, tmpl))
        for i in range(len(dec) - 1, n0 - 1, -1):
            stack.append(dec[:i] + [False])
        if len(paths) > 4000:
            raise Unsupported("path explosion")
    return paths, [ast.unparse(s) for s in stmts]


ISO = re.compile(r"P(?:(#)Y)?(?:(#)M)?(?:(#)W)?(?:(#)D)?(T(?:(#)H)?(?:(#)M)?(?:(#)(?:\.(#))?S)?)?")
UNITS = {1: 365 * 86400, 2: 30 * 86400, 3: 7 * 86400, 4: 86400, 6: 3600, 7: 60, 8: 1}


def read_template(tmpl):
    """-> (text, meaning_in_us or None, strict_wf z3 condition or None, syntactic_defect or None)."""
    text = "".join("#" if isinstance(t, Hole) else t for t in tmpl)
    holes = [t for t in tmpl if isinstance(t, Hole)]
    m = ISO.fullmatch(text)
    if not m:
        return text, None, None, "not_a_duration"
    hs = iter(holes)
    meaning = z3.IntVal(0)
    conds = []
    for gi, unit in UNITS.items():
        if m.group(gi):
            h = next(hs)
            conds.append(h.e >= 0)
            if h.width:
                return text, None, None, "padded_component"
            meaning = meaning + h.e * (unit * 1000000)
    if m.group(9):
        h = next(hs)
        conds.append(z3.And(h.e >= 0, h.e < 10 ** h.width, z3.BoolVal(h.width == 6)))
        meaning = meaning + h.e
    defect = None
    if m.group(5) == "T":
        defect = "bare_T"  # 'T' with no time component (includes 'PT' for zero)
    elif not any(m.group(g) for g in (1, 2, 3, 4, 6, 7, 8)):
        defect = "no_component"
    return text, meaning, z3.And(*conds) if conds else z3.BoolVal(True), defect


def instantiate(tmpl, model_env):
    out = []
    for t in tmpl:
        if isinstance(t, Hole):
            v = model_env(t.e)
            out.append(f"{v:0{t.width}}" if t.width else str(v))
        else:
            out.append(t)
    return "".join(out)


def _check(s):
    t0 = time.perf_counter()
    r = s.check()
    return str(r), time.perf_counter() - t0


def _binary_check(s):
    """Re-ask the same query to the z3 4.8.12 binary through SMT-LIB2 (solver diff)."""
    exe = "/usr/bin/z3"
    if not os.path.exists(exe):
        return "unavailable"
    smt = "(set-option :timeout %d)\n" % TIMEOUT_MS + s.to_smt2()
    try:
        p = subprocess.run([exe, "-in"], input=smt, capture_output=True, text=True, timeout=TIMEOUT_MS / 1000 + 10)
    except subprocess.TimeoutExpired:
        return "timeout"
    out = p.stdout.strip().splitlines()
    if "(error" in p.stdout:
        return "error"
    return out[0] if out else "empty"


# ------------------------------------------------------------------------------------------ native oracle
STRICT = re.compile(r"P(?:(\d+)Y)?(?:(\d+)M)?(?:(\d+)W)?(?:(\d+)D)?(T(?:(\d+)H)?(?:(\d+)M)?(?:(\d+)(?:\.(\d+))?S)?)?")
SIGNED = re.compile(r"P(?:(-?\d+)Y)?(?:(-?\d+)M)?(?:(-?\d+)W)?(?:(-?\d+)D)?(T(?:(-?\d+)H)?(?:(-?\d+)M)?(?:(-?\d+)(?:\.(-?\d+))?S)?)?")


def read_text(text):
    """Independent reader of an emitted duration -> (meaning_us or None, [defects])."""
    m = STRICT.fullmatch(text)
    defects = []
    if not m:
        m = SIGNED.fullmatch(text)
        if not m:
            return None, ["not_a_duration"]
        defects.append("negative_component")
    us = 0
    for gi, unit in UNITS.items():
        if m.group(gi):
            us += int(m.group(gi)) * unit * 1000000
    if m.group(9):
        frac = m.group(9)
        if frac.startswith("-"):
            us += int(frac)  # '-000005' style produced for negative durations: read as signed microseconds
        else:
            if len(frac) > 6:
                defects.append("fraction_too_long")
            us += int(frac.ljust(6, "0")[:6])
    if m.group(5) == "T":
        defects.append("bare_T")
    elif not any(m.group(g) for g in (1, 2, 3, 4, 6, 7, 8)):
        defects.append("no_component")
    return us, defects


def native_check(days, secs, us):
    """The replay oracle: real isoformat on a real timedelta, read by the independent reader."""
    import datetime

    from typelib import serdes

    td = datetime.timedelta(days=days, seconds=secs, microseconds=us)
    fn = getattr(serdes.isoformat, "__wrapped__", serdes.isoformat)
    text = fn(td)
    truth = (td.days * 86400 + td.seconds) * 1000000 + td.microseconds
    meaning, defects = read_text(text)
    if meaning is None:
        return ("not_a_duration", "isoformat", f"{td!r} -> {text!r}")
    if meaning != truth:
        return ("meaning_differs", "isoformat", f"{td!r} -> {text!r} reads as {meaning} us, value is {truth} us")
    for d in ("negative_component", "fraction_too_long", "no_component", "bare_T"):
        if d in defects:
            return (d, "isoformat", f"{td!r} -> {text!r}")
    return None


# --------------------------------------------------------------------------------------------- analysis
DAYS_EXACT = 24854            # |total seconds| < 2**31: the float total keeps microsecond resolution
DAYS_INT = 104249990          # |total seconds| < 2**53: whole seconds are exact in the float total
DAYS_MAX = 999999999


def grid():
    ds = [0, 1, 6, 7, 8, 13, 14, 365, 400, 1000, DAYS_EXACT - 1, DAYS_EXACT]
    ss = [0, 1, 59, 60, 61, 3599, 3600, 3661, 86399]
    us = [0, 1, 5, 999999, 500000]
    pts = []
    for d in ds:
        for s in ss:
            for u in us:
                pts.append((d, s, u))
                pts.append((-d, s, u))
    for d in (DAYS_EXACT + 1, 30000, 10 ** 6, 10 ** 8, DAYS_INT):
        for s in ss:
            pts.append((d, s, 0))
            pts.append((-d, s, 0))
    return pts


def analyse(domain="exact", classify=lambda f: None, binary_diff=True):
    t0 = time.time()
    res = {"paths": 0, "failures": [], "known": [], "known_hits": {}, "errors": [], "unknown": 0, "unknown_reasons": {},
           "z3_checks": 0, "z3_secs": 0.0, "samples": [], "oracle_reached": 0, "queries": [], "templates": []}
    days, secs, us = z3.Ints("days secs us")
    truth = (days * 86400 + secs) * 1000000 + us
    base = z3.And(secs >= 0, secs < 86400, us >= 0, us < 1000000, days >= -DAYS_MAX, days <= DAYS_MAX)
    if domain == "exact":      # every microsecond value, |total seconds| < 2**31
        dom = z3.And(base, days >= -DAYS_EXACT, days <= DAYS_EXACT)
    else:                      # whole seconds, |total seconds| < 2**53
        dom = z3.And(base, us == 0, days >= -DAYS_INT, days <= DAYS_INT)
    res["domain"] = domain
    try:
        paths, stmts = templates(days, secs, us)
    except Unsupported as e:
        res["verdict"] = "inconclusive:unsupported_ast:" + str(e)
        return res
    res["encoded_statements"] = stmts
    model_attrs = duration_model(days, secs, us)

    # -- validation of the translator and of the environment model against the real code (every run) -------
    import datetime

    from typelib import serdes

    real_iso = getattr(serdes.isoformat, "__wrapped__", serdes.isoformat)
    mismatches = 0
    npts = 0
    for d, s_, u in grid():
        npts += 1
        sub = [(days, z3.IntVal(d)), (secs, z3.IntVal(s_)), (us, z3.IntVal(u))]

        def val(e):
            return z3.simplify(z3.substitute(_z(e), *sub)).as_long()

        real = real_duration_attrs(d, s_, u)
        for k, v in real.items():
            if val(model_attrs[k]) != v:
                mismatches += 1
                res["errors"].append({"exc": f"environment model disagrees with pendulum at {(d, s_, u)}: {k} model={val(model_attrs[k])} real={v}"})
                break
        text_real = real_iso(datetime.timedelta(days=d, seconds=s_, microseconds=u))
        hit = None
        for dec, guard, tmpl in paths:
            if all(z3.is_true(z3.simplify(z3.substitute(g, *sub))) for g in guard):
                hit = instantiate(tmpl, val)
                break
        if hit != text_real:
            mismatches += 1
            res["errors"].append({"exc": f"encoding disagrees with isoformat at {(d, s_, u)}: encoding={hit!r} real={text_real!r}"})
        if mismatches > 5:
            break
    res["validation_points"] = npts
    if mismatches:
        res["verdict"] = "inconclusive:encoding_mismatch"
        res["wall_s"] = round(time.time() - t0, 2)
        return res

    def ask(extra, label, text):
        s = z3.Solver()
        s.set("timeout", TIMEOUT_MS)
        s.add(dom, *extra)
        r, dt = _check(s)
        res["z3_checks"] += 1
        res["z3_secs"] += dt
        rb = _binary_check(s) if binary_diff else "skipped"
        q = {"template": text, "query": label, "z3_5.1": r, "z3_4.8.12": rb, "secs": round(dt, 3)}
        res["queries"].append(q)
        if r == "unknown" or (rb not in ("skipped", "unavailable") and rb != r):
            res["unknown"] += 1
            k = "solver_disagreement" if r != "unknown" and rb not in ("unknown", "timeout", "error") else "unknown"
            res["unknown_reasons"][k] = res["unknown_reasons"].get(k, 0) + 1
            return "unknown", None
        if r == "sat":
            md = s.model()
            return "sat", {str(v): md.eval(v, model_completion=True).as_long() for v in (days, secs, us)}
        return "unsat", None

    def record(kind, args, text):
        f = {"kind": kind, "site": "isoformat", "detail": text, "args": args}
        kf = classify(f)
        if kf is not None:
            res["known_hits"][kf] = res["known_hits"].get(kf, 0) + 1
            if not any(k["kf"] == kf for k in res["known"]):
                res["known"].append({**f, "kf": kf})
        elif sum(1 for g in res["failures"] if g["kind"] == kind) < 3:
            res["failures"].append(f)

    nonneg, neg = truth >= 0, truth < 0
    for dec, guard, tmpl in paths:
        text, meaning, wf, defect = read_template(tmpl)
        r, m = ask(guard, "feasible", text)
        if r != "sat":
            if r == "unsat":
                res["templates"].append({"template": text, "feasible": False})
            continue
        res["paths"] += 1
        res["oracle_reached"] += 1
        res["templates"].append({"template": text, "feasible": True, "defect": defect})
        if len(res["samples"]) < 6:
            res["samples"].append({"template": text, **m})
        if meaning is None:
            record(defect or "not_a_duration", m, text)
            continue
        r, m = ask([*guard, meaning != truth], "meaning != value", text)
        if r == "sat":
            record("meaning_differs", m, text)
        r, m = ask([*guard, nonneg, z3.Not(wf)], "nonneg & not well-formed", text)
        if r == "sat":
            record("malformed_component", m, text)
        r, m = ask([*guard, neg, z3.Not(wf)], "negative & not well-formed", text)
        if r == "sat":
            record("negative_component", m, text)
        if defect is not None:
            r, m = ask([*guard, nonneg], "nonneg & " + defect, text)
            if r == "sat":
                record(defect, m, text)
    res["wall_s"] = round(time.time() - t0, 2)
    res["cpu_s"] = res["wall_s"]
    res["z3_secs"] = round(res["z3_secs"], 3)
    res["verdict"] = "closed" if res["unknown"] == 0 else "inconclusive:solver_unknown"
    res["exhausted"] = True
    return res
