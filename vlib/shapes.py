"""Shapes: the harness's own, independent description of the types in U (DESIGN 3).

A Shape knows (a) the annotation it stands for, (b) how to assemble a value of that type from a stream of
flat symbolic leaves (bools / ints / strs / floats handed out by a `Src`), and (c) the reference
semantics the oracles need: `same` (C01: equal, with identical runtime classes at every position),
`conforms` (C03: structural membership in the type).  Nothing here consults typelib.

Builders always consume a *fixed* number of leaves (both arms of a choice are built, then one is
selected) so that a condition's parameter list can be computed by a dry run.
"""
from __future__ import annotations

import collections
import dataclasses
import datetime
import decimal
import enum
import fractions
import pathlib
import re
import typing as t
import uuid

from vlib.prelude import NoTracing, assume, deep_realize, pick

UTC = datetime.timezone.utc


# ------------------------------------------------------------------------------------------- leaf source
class Src:
    """Hands out leaves from a condition's flat parameters (named i0.., s0.., b0.., f0.., y0..)."""

    NARROW_STRS = ("", "a", "1")

    def __init__(self, params: dict, narrow=False, strs=None):
        self.p = params
        if strs is not None:
            self.NARROW_STRS = tuple(strs)
            narrow = "strs"
        self.narrow = narrow  # leaves restricted to tiny domains (ints [-1,1], 3 strings): used where the
        self.n = {"i": 0, "s": 0, "b": 0, "f": 0, "y": 0}  # code under test stringifies / realises them

    def _next(self, k):
        name = f"{k}{self.n[k]}"
        self.n[k] += 1
        return self.p[name]

    def int(self, lo=None, hi=None):
        x = self._next("i")
        if lo is None and hi is None and self.narrow is True:
            lo, hi = -1, 1
        if lo is not None and hi is not None:
            # a bounded leaf is the unbounded parameter folded into the range: no path is spent on
            # (and then discarded for) the out-of-range alternatives of an assumption
            return lo + x % (hi - lo + 1)
        if lo is not None:
            assume(lo <= x)
        if hi is not None:
            assume(x <= hi)
        return x

    def sel(self, n):
        """A selector in [0, n)."""
        if n <= 1:
            return 0
        return self.int(0, n - 1)

    def str(self, maxlen=2):
        s = self._next("s")
        if self.narrow:
            ok = False
            for cand in self.NARROW_STRS:
                ok = ok or s == cand
            assume(ok)
            return s
        assume(len(s) <= maxlen)
        return s

    def bytes(self, maxlen=2):
        s = self._next("y")
        assume(len(s) <= maxlen)
        return s

    def bool(self):
        return self._next("b")

    def float(self):
        x = self._next("f")
        assume(x == x)
        assume(-1e300 < x)
        assume(x < 1e300)
        return x


class CountSrc(Src):
    """Dry run: counts the leaves a builder consumes."""

    def __init__(self):
        self.narrow = False
        self.n = {"i": 0, "s": 0, "b": 0, "f": 0, "y": 0}

    def _next(self, k):
        self.n[k] += 1
        return {"i": 0, "s": "", "b": False, "f": 0.0, "y": b""}[k]


_PT = {"i": int, "s": str, "b": bool, "f": float, "y": bytes}


def params_for(*shapes) -> list[tuple[str, type]]:
    c = CountSrc()
    for sh in shapes:
        sh.build(c)
    return [(f"{k}{j}", _PT[k]) for k in "isbfy" for j in range(c.n[k])]


# ------------------------------------------------------------------------------------------------ shapes
class Shape:
    T: t.Any
    name: str
    transparent = True  # False: values reach a C boundary and are realised (pick-lists only)

    def build(self, src: Src):
        raise NotImplementedError

    def same(self, v, r) -> bool:
        return type(r) is type(v) and r == v

    def conforms(self, r) -> t.Optional[str]:
        raise NotImplementedError

    def __repr__(self):
        return self.name


class Int(Shape):
    T = int
    name = "int"

    def __init__(self, lo=None, hi=None):
        self.lo, self.hi = lo, hi

    def build(self, src):
        return src.int(self.lo, self.hi)

    def conforms(self, r):
        return None if isinstance(r, int) else "not_int"


class Bool(Shape):
    T = bool
    name = "bool"

    def build(self, src):
        return src.bool()

    def conforms(self, r):
        return None if type(r) is bool else "not_bool"


class Float(Shape):
    T = float
    name = "float"

    def build(self, src):
        return src.float()

    def conforms(self, r):
        return None if isinstance(r, float) else "not_float"


class Str(Shape):
    T = str
    name = "str"

    def __init__(self, maxlen=2, picks=None):
        self.maxlen, self.picks = maxlen, picks

    def build(self, src):
        if self.picks is not None:
            return pick(src.sel(len(self.picks)), self.picks)
        return src.str(self.maxlen)

    def conforms(self, r):
        return None if isinstance(r, str) else "not_str"


class Bytes(Shape):
    T = bytes
    name = "bytes"

    def __init__(self, maxlen=2):
        self.maxlen = maxlen

    def build(self, src):
        return src.bytes(self.maxlen)

    def conforms(self, r):
        return None if isinstance(r, bytes) else "not_bytes"


class ByteArrayS(Bytes):
    T = bytearray
    name = "bytearray"

    def build(self, src):
        return bytearray(src.bytes(self.maxlen))

    def same(self, v, r):
        return type(r) is bytearray and r == v

    def conforms(self, r):
        return None if type(r) is bytearray else "not_bytearray"


class NoneS(Shape):
    T = type(None)
    name = "None"

    def build(self, src):
        return None

    def same(self, v, r):
        return r is None

    def conforms(self, r):
        return None if r is None else "not_none"


class Picked(Shape):
    """A leaf whose values come from a pick-list (realised scalars, enum members, literals)."""

    def __init__(self, T, values, name=None, exact=True, transparent=False, tag=None):
        self.T, self.values, self.exact = T, list(values), exact
        self.tag = tag  # classifies a value for the finding identity (e.g. "neg" / "nonutc")
        self.name = name or getattr(T, "__name__", str(T))
        self.transparent = transparent

    def build(self, src):
        return pick(src.sel(len(self.values)), self.values)

    def same(self, v, r):
        if not self.transparent:
            # realised leaf: the engine's pure-Python stand-ins for datetime/Decimal objects are turned
            # back into the real objects and compared natively
            r, v = deep_realize(r), deep_realize(v)
            with NoTracing():
                return self._same(v, r)
        return self._same(v, r)

    def _same(self, v, r):
        if type(r) is not type(v) or r != v:
            return False
        if isinstance(v, (datetime.datetime, datetime.time)):
            return r.utcoffset() == v.utcoffset()
        return True

    def conforms(self, r):
        if not self.transparent:
            r = deep_realize(r)
            with NoTracing():
                return self._conforms(r)
        return self._conforms(r)

    def _conforms(self, r):
        cls = self.cls()
        if cls is not None:
            return None if (type(r) is cls if self.exact else isinstance(r, cls)) else "wrong_class"
        return None if any(type(r) is type(x) and r == x for x in self.values) else "not_a_member"

    def cls(self):
        return self.T if isinstance(self.T, type) else None


class EnumS(Picked):
    def __init__(self, cls):
        super().__init__(cls, list(cls), transparent=True)

    def same(self, v, r):
        return r is v

    def conforms(self, r):
        return None if any(r is m for m in self.values) else "not_a_member"


class Lit(Picked):
    def __init__(self, *values):
        super().__init__(t.Literal[tuple(values)], values, name="Literal" + repr(list(values)), transparent=True)

    def conforms(self, r):
        if any(type(r) is type(x) and r == x for x in self.values):
            return None
        if any(r == x and {type(r), type(x)} == {bool, int} for x in self.values):
            return "bool_int_alias"  # 1 == True: `in` on the member tuple cannot tell them apart
        return "not_a_member"


class Seq(Shape):
    """list / set / frozenset / deque / tuple[X, ...] and their typing spellings."""

    def __init__(self, T, ctor, elem: Shape, maxlen=2, name=None):
        self.T, self.ctor, self.elem, self.maxlen = T, ctor, elem, maxlen
        self.name = name or str(T).replace("typing.", "")
        self.transparent = elem.transparent

    def build(self, src):
        xs = [self.elem.build(src) for _ in range(self.maxlen)]
        n = src.int(0, self.maxlen)
        return self.ctor(xs[:n])

    def same(self, v, r):
        if type(r) is not type(v) or len(r) != len(v):
            return False
        if self.ctor in (set, frozenset):
            # unordered: pair each element of v with an equal element of r carrying the same classes
            rs = list(r)
            for x in v:
                if not any(self.elem.same(x, y) for y in rs):
                    return False
            return True
        for x, y in zip(v, r):
            if not self.elem.same(x, y):
                return False
        return True

    def conforms(self, r):
        if type(r) is not self.ctor:
            return "wrong_container"
        for y in r:
            w = self.elem.conforms(y)
            if w is not None:
                return "elem:" + w
        return None


class FixedTuple(Shape):
    def __init__(self, *elems: Shape):
        self.elems = elems
        self.T = tuple[tuple(e.T for e in elems)]
        self.name = "tuple[" + ",".join(e.name for e in elems) + "]"
        self.transparent = all(e.transparent for e in elems)

    def build(self, src):
        return tuple(e.build(src) for e in self.elems)

    def same(self, v, r):
        if type(r) is not tuple or len(r) != len(v):
            return False
        for e, x, y in zip(self.elems, v, r):
            if not e.same(x, y):
                return False
        return True

    def conforms(self, r):
        if type(r) is not tuple:
            return "wrong_container"
        if len(r) != len(self.elems):
            return "arity"
        for e, y in zip(self.elems, r):
            w = e.conforms(y)
            if w is not None:
                return "elem:" + w
        return None


class Map(Shape):
    def __init__(self, T, ctor, key: Shape, val: Shape, maxlen=2, name=None):
        self.T, self.ctor, self.key, self.val, self.maxlen = T, ctor, key, val, maxlen
        self.name = name or str(T).replace("typing.", "")
        self.transparent = key.transparent and val.transparent

    def build(self, src):
        ks = [self.key.build(src) for _ in range(self.maxlen)]
        vs = [self.val.build(src) for _ in range(self.maxlen)]
        n = src.int(0, self.maxlen)
        d = self.ctor()
        for i in range(self.maxlen):
            if i < n:
                d[ks[i]] = vs[i]
        return d

    def same(self, v, r):
        if type(r) is not type(v) or len(r) != len(v):
            return False
        for k, x in v.items():
            hit = False
            for k2, y in r.items():
                if self.key.same(k, k2):
                    if not self.val.same(x, y):
                        return False
                    hit = True
                    break
            if not hit:
                return False
        return True

    def conforms(self, r):
        if type(r) is not self.ctor:
            return "wrong_container"
        for k, y in r.items():
            w = self.key.conforms(k)
            if w is not None:
                return "key:" + w
            w = self.val.conforms(y)
            if w is not None:
                return "value:" + w
        return None


class Opt(Shape):
    def __init__(self, inner: Shape, spelling="Optional"):
        self.inner = inner
        self.T = {"Optional": lambda: t.Optional[inner.T], "pipe": lambda: inner.T | None,
                  "Union": lambda: t.Union[inner.T, None], "none_first": lambda: None | inner.T,
                  "Union_none_first": lambda: t.Union[None, inner.T]}[spelling]()
        self.name = {"pipe": f"{inner.name}|None", "none_first": f"None|{inner.name}",
                     "Union_none_first": f"Union[None,{inner.name}]"}.get(spelling, f"Optional[{inner.name}]")
        self.transparent = inner.transparent

    def build(self, src):
        x = self.inner.build(src)
        return x if src.bool() else None

    def same(self, v, r):
        if v is None:
            return r is None
        return r is not None and self.inner.same(v, r)

    def conforms(self, r):
        return None if r is None else self.inner.conforms(r)


class UnionS(Shape):
    def __init__(self, *members: Shape, T=None):
        self.members = members
        self.T = T if T is not None else t.Union[tuple(m.T for m in members)]
        self.name = "Union[" + ",".join(m.name for m in members) + "]"
        self.transparent = all(m.transparent for m in members)

    def build(self, src):
        vals = [m.build(src) for m in self.members]
        k = src.sel(len(vals))
        return pick(k, vals)

    def conforms(self, r):
        for m in self.members:
            if m.conforms(r) is None:
                return None
        return "no_member"


class Struct(Shape):
    """dataclass / NamedTuple / plain annotated class / TypedDict."""

    def __init__(self, cls, fields: dict[str, Shape], kind="class", optional=(), name=None):
        self.T, self.cls, self.fields, self.kind, self.optional = cls, cls, fields, kind, tuple(optional)
        self.name = name or cls.__name__
        self.transparent = all(f.transparent for f in fields.values())

    def build(self, src):
        kw = {f: sh.build(src) for f, sh in self.fields.items()}
        for f in self.optional:
            if not src.bool():
                del kw[f]
        return self.cls(**kw)

    def get(self, obj, f):
        return obj[f] if self.kind == "typeddict" else getattr(obj, f)

    def has(self, obj, f):
        return (f in obj) if self.kind == "typeddict" else hasattr(obj, f)

    def same(self, v, r):
        if self.kind == "typeddict":
            if type(r) is not dict or len(r) != len(v):
                return False
        elif type(r) is not self.cls:
            return False
        for f, sh in self.fields.items():
            hv, hr = self.has(v, f), self.has(r, f)
            if hv != hr:
                return False
            if hv and not sh.same(self.get(v, f), self.get(r, f)):
                return False
        return True

    def conforms(self, r):
        if self.kind == "typeddict":
            if type(r) is not dict:
                return "wrong_class"
            for k in r:
                if k not in self.fields:
                    return "extra_key"
        elif type(r) is not self.cls:
            return "wrong_class"
        for f, sh in self.fields.items():
            if not self.has(r, f):
                if f in self.optional:
                    continue
                return "missing_field"
            w = sh.conforms(self.get(r, f))
            if w is not None:
                return f"field:" + w
        return None


class Wrapped(Shape):
    """NewType / alias / Final / ClassVar / reference: same values, same semantics as the inner shape."""

    def __init__(self, T, inner: Shape, name=None):
        self.T, self.inner = T, inner
        self.name = name or f"W({inner.name})"
        self.transparent = inner.transparent

    def build(self, src):
        return self.inner.build(src)

    def same(self, v, r):
        return self.inner.same(v, r)

    def conforms(self, r):
        return self.inner.conforms(r)


class Loose(Wrapped):
    """An un-annotated position (e.g. a field of collections.namedtuple): values are built from the inner shape, but
    *any* result conforms - there is no declared type."""

    def __init__(self, inner):
        super().__init__(t.Any, inner, name=f"untyped({inner.name})")

    def conforms(self, r):
        return None


class Rec(Shape):
    """A recursive structured type: `make(depth)` returns the Struct shape unrolled to `depth`."""

    def __init__(self, T, make, depth=2, name=None):
        self.T, self.make, self.depth = T, make, depth
        self.unrolled = make(depth)
        self.name = name or getattr(T, "__name__", str(T))
        self.transparent = self.unrolled.transparent

    def build(self, src):
        return self.unrolled.build(src)

    def same(self, v, r):
        return self.unrolled.same(v, r)

    def conforms(self, r):
        # conformance of arbitrary results must not depend on the unrolling depth: unroll generously
        return self.make(self.depth + 4).conforms(r)


# ----------------------------------------------------------------------------- marshalled-output oracle
def plain(m, depth=0) -> t.Optional[str]:
    """C06: only exact None/bool/int/float/str/list/dict, primitive keys."""
    tm = type(m)
    if m is None or tm is bool or tm is int or tm is float or tm is str:
        return None
    if tm is list:
        for x in m:
            w = plain(x, depth + 1)
            if w is not None:
                return w
        return None
    if tm is dict:
        for k, x in m.items():
            tk = type(k)
            if not (k is None or tk is bool or tk is int or tk is float or tk is str):
                return "non_primitive_key"
            w = plain(x, depth + 1)
            if w is not None:
                return w
        return None
    return "non_plain_value"


# --------------------------------------------------------------------------- realised-leaf pick lists
def aware(h=0, m=0):
    return datetime.timezone(datetime.timedelta(hours=h, minutes=m))


DECIMALS = [decimal.Decimal("0"), decimal.Decimal("1.50"), decimal.Decimal("-3.25"), decimal.Decimal("1E+5"),
            decimal.Decimal("0.001")]
FRACTIONS = [fractions.Fraction(0), fractions.Fraction(1, 2), fractions.Fraction(-7, 3), fractions.Fraction(5)]
UUIDS = [uuid.UUID(int=0), uuid.UUID(int=1), uuid.UUID("12345678-1234-5678-1234-567812345678"),
         uuid.UUID(int=(1 << 128) - 1)]
PATHS = [pathlib.Path("a"), pathlib.Path("/x/y.txt"), pathlib.Path("."), pathlib.Path("../up")]
PUREPATHS = [pathlib.PurePosixPath("a"), pathlib.PurePosixPath("/x/y.txt"), pathlib.PurePosixPath(".")]
DATES = [datetime.date(1970, 1, 1), datetime.date(2020, 2, 29), datetime.date(1, 1, 1), datetime.date(9999, 12, 31)]
DATETIMES = [datetime.datetime(2020, 5, 17, 8, 30, 1, 7, tzinfo=datetime.timezone(datetime.timedelta(hours=-11))),
             datetime.datetime(1970, 1, 1, tzinfo=UTC), datetime.datetime(2020, 2, 29, 23, 59, 59, 999999, tzinfo=UTC),
             datetime.datetime(2001, 9, 9, 1, 46, 40, tzinfo=aware(5, 30)),
             datetime.datetime(1969, 12, 31, 23, 0, 0, 1, tzinfo=aware(-8)),
             datetime.datetime(3000, 9, 25, 13, 51, 29, 607690, tzinfo=UTC), datetime.datetime(101, 7, 9, 12, 0, 0, 1, tzinfo=UTC)]
TIMES = [datetime.time(0, 0, tzinfo=UTC), datetime.time(23, 59, 59, 999999, tzinfo=UTC),
         datetime.time(12, 30, tzinfo=aware(5, 30)), datetime.time(1, 2, 3, 4, tzinfo=aware(-8))]
TIMEDELTAS = [datetime.timedelta(0), datetime.timedelta(seconds=1), datetime.timedelta(days=1, seconds=3661),
              datetime.timedelta(days=7), datetime.timedelta(days=8, microseconds=1), datetime.timedelta(days=400),
              datetime.timedelta(seconds=-1), datetime.timedelta(microseconds=999999),
              datetime.timedelta(days=150000, microseconds=1)]
PATTERNS = [re.compile("a"), re.compile("^x+$"), re.compile("[0-9]{2}")]
PATTERNS_FLAGS = [re.compile("abc", re.I), re.compile("^x .+ y$", re.M | re.S)]


def DecimalS(): return Picked(decimal.Decimal, DECIMALS)
def FractionS(): return Picked(fractions.Fraction, FRACTIONS)
def UUIDS_(): return Picked(uuid.UUID, UUIDS)
def PathS(): return Picked(pathlib.Path, PATHS, exact=False)
def PurePathS(): return Picked(pathlib.PurePosixPath, PUREPATHS)
def DateS(): return Picked(datetime.date, DATES)
def DateTimeS(): return Picked(datetime.datetime, DATETIMES)
def _zero(td): return td is None or td == datetime.timedelta(0)
def TimeS(safe=True):
    return Picked(datetime.time, [x for x in TIMES if _zero(x.utcoffset())] if safe else TIMES,
                  tag=lambda v: "utc" if _zero(v.utcoffset()) else "nonutc")
def TimeDeltaS(safe=True):
    big = datetime.timedelta(days=24855)
    return Picked(datetime.timedelta, [x for x in TIMEDELTAS if datetime.timedelta(0) <= x < big] if safe else TIMEDELTAS,
                  tag=lambda v: "neg" if v < datetime.timedelta(0) else ("large_us" if abs(v) >= big and v.microseconds else "nonneg"))
def PatternS(safe=True):
    """safe: compiled without flags (the wire form is the pattern text alone; flags do not survive it - a recorded finding)."""
    return Picked(re.Pattern, PATTERNS if safe else PATTERNS + PATTERNS_FLAGS,
                  tag=lambda v: "flags" if v.flags & ~re.UNICODE else "plain")


# ------------------------------------------------------------------------------- container constructors
def ListOf(e, n=2): return Seq(list[e.T], list, e, n, f"list[{e.name}]")
def TListOf(e, n=2): return Seq(t.List[e.T], list, e, n, f"List[{e.name}]")
def SequenceOf(e, n=2): return Seq(t.Sequence[e.T], list, e, n, f"Sequence[{e.name}]")
def SetOf(e, n=2): return Seq(set[e.T], set, e, n, f"set[{e.name}]")
def FrozenSetOf(e, n=2): return Seq(frozenset[e.T], frozenset, e, n, f"frozenset[{e.name}]")
def DequeOf(e, n=2): return Seq(collections.deque[e.T], collections.deque, e, n, f"deque[{e.name}]")
def MutableSetOf(e, n=2): return Seq(t.MutableSet[e.T], set, e, n, f"MutableSet[{e.name}]")
def AbstractSetOf(e, n=2): return Seq(t.AbstractSet[e.T], set, e, n, f"AbstractSet[{e.name}]")
def MutableSequenceOf(e, n=2): return Seq(t.MutableSequence[e.T], list, e, n, f"MutableSequence[{e.name}]")
def VarTuple(e, n=2): return Seq(tuple[e.T, ...], tuple, e, n, f"tuple[{e.name},...]")
def DictOf(k, v, n=2): return Map(dict[k.T, v.T], dict, k, v, n, f"dict[{k.name},{v.name}]")
def MappingOf(k, v, n=2): return Map(t.Mapping[k.T, v.T], dict, k, v, n, f"Mapping[{k.name},{v.name}]")


# ------------------------------------------------------------------------------- arbitrary inputs (J)
J_STRS = ["", "a", "1", "null", "[1]", '{"a": 1}', "1.5", "2020-01-01", "ab"]
J_STRS_SMALL = ["a", "1", "[1]"]
J_FLOATS = [1.5, -2.25]


class JVal(Shape):
    """x in J = None | bool | int | float | str | list[J] | dict[str, J], depth-bounded.  Consumes leaves
    lazily from the int pool (`pool(depth)` is the worst case).  Members of containers use the reduced
    leaf set (`small`); bools are concrete (a proxy bool leaks through vars()/getattr)."""

    T = object
    transparent = True

    def __init__(self, depth=1, wide_ints=False, strs=None, maxlen=2, extra=(), small_inner=True, keys=("a", "x", 1)):
        self.depth, self.wide, self.strs, self.maxlen = depth, wide_ints, strs or J_STRS, maxlen
        self.extra = list(extra)  # additional concrete objects (instances of unrelated classes, bytes ...)
        self.small_inner, self.keys = small_inner, list(keys)
        self.name = f"J{depth}"

    @staticmethod
    def pool(depth, maxlen=2):
        return 2 if depth == 0 else 2 + maxlen + maxlen * JVal.pool(depth - 1, maxlen)

    def build(self, src, depth=None, inner=False):
        d = self.depth if depth is None else depth
        small = inner and self.small_inner
        nk = 5 + (1 if self.extra and not small else 0) + (2 if d > 0 else 0)
        k = src.sel(nk)
        if k == 0:
            return None
        if k == 1:
            if small:
                return True
            return True if src.sel(2) == 1 else False
        if k == 2:
            return src.int() if self.wide else src.int(-1, 1)
        if k == 3:
            return 1.5 if small else pick(src.sel(len(J_FLOATS)), J_FLOATS)
        if k == 4:
            strs = J_STRS_SMALL if small else self.strs
            return pick(src.sel(len(strs)), strs)
        base = 5
        if self.extra and not small:
            if k == 5:
                return pick(src.sel(len(self.extra)), self.extra)
            base = 6
        n = src.int(0, self.maxlen)
        if k == base:
            out = []
            for i in range(self.maxlen):
                if i < n:
                    out.append(self.build(src, d - 1, True))
            return out
        outd = {}
        for i in range(self.maxlen):
            if i < n:
                kk = pick(src.sel(len(self.keys)), self.keys)
                outd[kk] = self.build(src, d - 1, True)
        return outd


def jparams(depth, maxlen=2, prefix="i"):
    return [(f"{prefix}{j}", int) for j in range(JVal.pool(depth, maxlen))]


def corrupt(m, src, prim: "JVal"):
    """One symbolic corruption of a wire form (DESIGN C03): drop / rename / retype a field, remove / add
    an element, wrap / unwrap a level.  Consumes <= 4 ints + one depth-0 J value."""
    op = src.sel(6)
    idx = src.sel(3)
    junk = prim.build(src, 0, True)
    if op == 4:
        return [m]
    tm = type(m)
    if tm is dict:
        keys = list(m.keys())
        if op == 5:
            return {**m, "zz": junk}
        if len(keys) == 0:
            return junk
        k = keys[0] if idx == 0 or len(keys) < 2 else (keys[1] if idx == 1 or len(keys) < 3 else keys[2])
        if op == 0:
            return {a: b for a, b in m.items() if a != k}
        if op == 1:
            return {("zz" if a == k else a): b for a, b in m.items()}
        if op == 2:
            return {a: (junk if a == k else b) for a, b in m.items()}
        return m[k]  # unwrap
    if tm is list:
        n = len(m)
        if op == 5:
            return [*m, junk]
        if n == 0:
            return junk
        i = 0 if idx == 0 or n < 2 else (1 if idx == 1 or n < 3 else 2)
        if op == 0:
            return [x for j, x in enumerate(m) if j != i]
        if op == 1:
            return [junk, *m]
        if op == 2:
            return [(junk if j == i else x) for j, x in enumerate(m)]
        return m[i]  # unwrap
    return junk
