"""Harness prelude: one import that works in two worlds.

* symbolic world (VERIF_MODE=symbolic, set by vlib.worker before anything else is imported):
  installs the typelib source-lowering hook and the engine shims of DESIGN 2.2 and exposes CrossHair's
  tracing controls.
* native world (anything else; used by `vcheck replay`, by known-finding witnesses and by the
  oracle self-validation): no CrossHair, no lowering - the pristine typelib of /repo - and the same
  names bound to no-ops, so that a condition body is an ordinary Python function of its flat parameters.
"""
from __future__ import annotations

import contextlib
import os
import time

SYMBOLIC = os.environ.get("VERIF_MODE") == "symbolic"

COUNTERS = {"oracle_reached": 0, "z3_checks": 0, "z3_secs": 0.0}


class AssumptionFailed(Exception):
    """Native world only: the concrete parameters are outside the condition's domain."""


if SYMBOLIC:
    from vlib import lower

    lower.install()

    import functools

    import orjson
    import z3
    import crosshair.core_and_libs  # noqa: F401  (loads the library models / opcode patches)
    from crosshair import core as _xc
    from crosshair.core import CrossHairValue, deep_realize, realize, with_realized_args
    from crosshair.statespace import context_statespace
    from crosshair.tracers import NoTracing, ResumedTracing, is_tracing
    from crosshair.util import CrosshairUnsupported, IgnoreAttempt

    # -- shim 1: type-keyed caches stay caches, value-keyed (symbolic-argument) calls bypass them --------
    _lru_type = type(functools.lru_cache(lambda: None))

    def _is_symbolic(x):
        return isinstance(x, CrossHairValue)

    def _cache_call(self, *a, **kw):
        with NoTracing():
            if not isinstance(self, _lru_type):
                raise TypeError
            concrete = not any(_is_symbolic(x) for x in a) and not any(_is_symbolic(x) for x in kw.values())
            if concrete:
                return self(*a, **kw)
        return self.__wrapped__(*a, **kw)

    _xc._PATCH_REGISTRATIONS[_lru_type.__call__] = _cache_call
    # -- shim 2: C-extension JSON boundary realises its arguments ---------------------------------------
    _xc.register_patch(orjson.loads, with_realized_args(orjson.loads))
    _xc.register_patch(orjson.dumps, with_realized_args(orjson.dumps, deep=True))

    # -- shim 3: vars() on an atomic proxy must fail like vars() on the real int/str/bool/float ------------
    import builtins as _bi

    _orig_vars = _bi.vars

    def _vars(*a):
        if a:
            with NoTracing():
                atomic = isinstance(a[0], CrossHairValue) and _xc.python_type(a[0]) in (int, bool, float, str, bytes, type(None))
            if atomic:
                raise TypeError("vars() argument must have __dict__ attribute")
        return _orig_vars(*a)

    _xc.register_patch(_bi.vars, _vars)

    # -- shim 4: str(symbolic int) -----------------------------------------------------------------------
    # CrossHair's str() patch dispatches to object.__str__, which calls repr() in C and rejects the lazy
    # symbolic string SymbolicInt.__repr__ returns ("__repr__ returned non-string").  Return that lazy
    # string directly: str(int) is repr(int).
    from crosshair.libimpl.builtinslib import SymbolicInt as _SymInt

    _str_patch = _xc._PATCH_REGISTRATIONS.get(str)

    def _str(*a):
        with NoTracing():
            one = a.__len__() == 1
            symint = one and isinstance(a[0], _SymInt)
            if not one:
                return str(*deep_realize(a))  # str(), str(b, enc[, errors]): rare, realised
            container = one and type(a[0]) in (list, tuple, dict, set, frozenset)
        if symint:
            return a[0].__repr__()
        if container:
            return repr(a[0])  # str(container) is repr(container); repr is modelled element-wise
        return _str_patch(*a)

    if _str_patch is not None:
        _xc._PATCH_REGISTRATIONS[str] = _str

    # -- solver statistics ------------------------------------------------------------------------------
    _orig_check = z3.Solver.check

    def _counted_check(self, *a):
        t0 = time.perf_counter()
        try:
            return _orig_check(self, *a)
        finally:
            COUNTERS["z3_checks"] += 1
            COUNTERS["z3_secs"] += time.perf_counter() - t0

    z3.Solver.check = _counted_check

    def is_symbolic(x) -> bool:
        with NoTracing():
            return isinstance(x, CrossHairValue)

    def assume(cond) -> None:
        """Precondition: paths on which `cond` is false are outside the domain (ignored, not confirmed)."""
        if not cond:
            raise IgnoreAttempt("assumption")

    def unsupported(why: str):
        raise CrosshairUnsupported(why)

    def proxy_intolerance(exc: BaseException) -> bool:
        with NoTracing():
            return _xc.suspected_proxy_intolerance_exception(exc)  # type: ignore[arg-type]

else:
    NoTracing = ResumedTracing = contextlib.nullcontext  # type: ignore[misc,assignment]

    def realize(x):  # type: ignore[misc]
        return x

    def deep_realize(x, memo=None):  # type: ignore[misc]
        return x

    def is_tracing() -> bool:  # type: ignore[misc]
        return False

    def is_symbolic(x) -> bool:
        return False

    def assume(cond) -> None:
        if not cond:
            raise AssumptionFailed()

    def unsupported(why: str):
        raise AssumptionFailed(why)

    def proxy_intolerance(exc: BaseException) -> bool:
        return False


def reached() -> None:
    """Reachability witness: called by every condition body immediately before its oracle."""
    with NoTracing():
        COUNTERS["oracle_reached"] += 1


def pick(k, seq):
    """seq[k] for a possibly symbolic k (if-chain: indexing a concrete list with a symbolic int is unsupported)."""
    n = len(seq)
    for i in range(n - 1):
        if k == i:
            return seq[i]
    return seq[n - 1]


def attempt(fn, *a, **kw):
    """Run fn; (True, value) or (False, exception).  Only `Exception` is caught: the engine's
    path-steering exceptions are BaseException and must propagate.  A TypeError that merely says a C
    function refused a proxy is an engine artefact and ends the path as *unsupported* (inconclusive)."""
    try:
        return True, fn(*a, **kw)
    except Exception as e:  # noqa: BLE001
        if SYMBOLIC and proxy_intolerance(e):
            unsupported("proxy intolerance: " + type(e).__name__)
        return False, e


class Chooser:
    """E3 choice variables: a tuple of symbolic ints consulted lazily.

    `ch.pick(n)` consumes the next variable c and realises `c % n` - the solver forks on the value of
    that expression only, so variables that are never consulted stay universally quantified and the
    engine's exhaustion verdict covers every assignment of the consulted ones."""

    def __init__(self, cs):
        self.cs = tuple(cs)
        self.i = 0
        self.trace = []

    def pick(self, n: int) -> int:
        if n <= 1:
            self.trace.append(0)
            return 0
        if self.i >= len(self.cs):
            raise RuntimeError("out of choice variables")
        c = self.cs[self.i]
        self.i += 1
        with ResumedTracing():
            # binary search on the symbolic value: log2(n) two-way forks instead of a chain of n
            # "value == k ?" decisions
            v = c % n
            lo, hi = 0, n
            while hi - lo > 1:
                mid = (lo + hi) // 2
                if v < mid:
                    hi = mid
                else:
                    lo = mid
        self.trace.append(lo)
        return lo

    def choose(self, seq):
        return seq[self.pick(len(seq))]

    def flag(self) -> bool:
        return bool(self.pick(2))
