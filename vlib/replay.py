"""Native replay: re-executes one condition body on concrete arguments in the pristine interpreter
(/venv/bin/python - no CrossHair, no source lowering) against /repo's working tree.

usage: python -m vlib.replay <replay.json>          -> prints a JSON object {descriptor|null, ...}
"""
from __future__ import annotations

import json
import os
import sys
import traceback

os.environ.pop("VERIF_MODE", None)
sys.setrecursionlimit(10000)


def run(rec: dict) -> dict:
    from vlib import prelude
    from vlib.cond import dec_args
    from vlib.props import load

    assert not prelude.SYMBOLIC
    mod = load(rec["property"])
    conds = {c.name: c for c in mod.conditions(rec.get("tier", "quick"), int(rec.get("seed", 0)))}
    c = conds.get(rec["cond"])
    if c is None:  # the other tier may define it
        conds = {c.name: c for c in mod.conditions("thorough", int(rec.get("seed", 0)))}
        c = conds.get(rec["cond"])
    if c is None:
        return {"status": "missing_condition"}
    try:
        d = c.body(**dec_args(rec["args"]))
    except prelude.AssumptionFailed:
        return {"status": "outside_domain"}
    except Exception as e:  # noqa: BLE001
        return {"status": "harness_exception", "exc": repr(e)[:300], "tb": traceback.format_exc()[-1500:]}
    if d is None:
        return {"status": "holds"}
    return {"status": "fails", "kind": d[0], "site": d[1], "detail": str(d[2])[:500] if len(d) > 2 else ""}


def main(argv):
    rec = json.load(open(argv[0]))
    print(json.dumps(run(rec)))


if __name__ == "__main__":
    main(sys.argv[1:])
