"""Condition objects: one proof obligation each.

A condition is a *total* Python function of flat parameters (bool / int / float / str / bytes) which
returns None when the property holds for those parameters, or a violation descriptor
`(kind, site, detail)`.  Under the engine the parameters are symbolic; in the native world the same
function is the replay.
"""
from __future__ import annotations

import base64
import dataclasses
import typing as t


@dataclasses.dataclass
class Cond:
    name: str
    params: t.Sequence[tuple[str, type]]
    body: t.Callable[..., t.Optional[tuple]]
    mode: str = "E1"  # E1 value-symbolic | E3 choice-symbolic | E2 kernel-to-z3 | N native witness
    timeout: float = 30.0
    bounds: str = ""
    funcs: t.Sequence[str] = ()
    max_paths: int = 100000
    solve: t.Optional[t.Callable[[], dict]] = None  # E2 only: runs the z3 queries itself

    def signature(self):
        import inspect

        return inspect.Signature(
            [inspect.Parameter(n, inspect.Parameter.POSITIONAL_OR_KEYWORD, annotation=ty) for n, ty in self.params]
        )


def enc_arg(v):
    if isinstance(v, bool) or v is None or isinstance(v, (int, str)):
        return v
    if isinstance(v, float):
        return {"__float__": repr(v)}
    if isinstance(v, (bytes, bytearray)):
        return {"__bytes__": base64.b64encode(bytes(v)).decode()}
    if isinstance(v, (list, tuple)):
        return {"__seq__": [enc_arg(x) for x in v], "t": type(v).__name__}
    if isinstance(v, dict):
        return {"__map__": [[enc_arg(k), enc_arg(x)] for k, x in v.items()]}
    raise TypeError(f"cannot encode argument of type {type(v)}")


def dec_arg(v):
    if isinstance(v, dict):
        if "__float__" in v:
            return float(v["__float__"])
        if "__bytes__" in v:
            return base64.b64decode(v["__bytes__"])
        if "__seq__" in v:
            xs = [dec_arg(x) for x in v["__seq__"]]
            return tuple(xs) if v.get("t") == "tuple" else xs
        if "__map__" in v:
            return {dec_arg(k): dec_arg(x) for k, x in v["__map__"]}
    return v


def enc_args(d: dict) -> dict:
    return {k: enc_arg(v) for k, v in d.items()}


def dec_args(d: dict) -> dict:
    return {k: dec_arg(v) for k, v in d.items()}
