"""The type catalogue (DESIGN 3): Shape instances for the types of U, by tier."""
from __future__ import annotations

import collections
import decimal
import typing as t

from vlib.fixtures import models as M
from vlib.shapes import *  # noqa: F401,F403
from vlib.shapes import (Bool, Bytes, DictOf, Loose, EnumS, FixedTuple, Float, Int, ListOf, Lit, Map, NoneS, Opt, Picked, Seq,
                         SetOf, Shape, Str, Struct, UnionS, Wrapped)


class Lazy(Shape):
    """Defers the construction of a member shape (recursive types)."""

    def __init__(self, thunk):
        self.__dict__["_thunk"] = thunk
        self.__dict__["_v"] = None

    def _get(self):
        if self.__dict__["_v"] is None:
            self.__dict__["_v"] = self.__dict__["_thunk"]()
        return self.__dict__["_v"]

    def __getattr__(self, k):
        return getattr(self._get(), k)

    def build(self, src):
        return self._get().build(src)

    def same(self, v, r):
        return self._get().same(v, r)

    def conforms(self, r):
        return self._get().conforms(r)


# ---------------------------------------------------------------------------------------- structured
def PointS(): return Struct(M.Point, {"x": Int(), "y": Int()})
def SPointS(): return Struct(M.SPoint, {"x": Int(), "name": Str()})
def FPointS(): return Struct(M.FPoint, {"x": Int(), "flag": Bool()})
def KPointS(): return Struct(M.KPoint, {"x": Int(), "y": Str()})
def WithCVS(): return Struct(M.WithCV, {"x": Int(), "label": Str()})
def JobS(): return Struct(M.Job, {"name": Str(), "retries": Opt(Int()), "tags": Opt(ListOf(Str()))})
def TDOptS(): return Struct(M.TDOpt, {"a": Opt(Int()), "b": Opt(Str())}, kind="typeddict", optional=("a", "b"))
def ExtOrderS():
    from vlib.fixtures import mod_a, mod_b
    item = lambda: Struct(mod_a.Item, {"id": Int(), "tag": Str()}, name="a.Item")  # noqa: E731
    return Struct(mod_b.ExtOrder, {"item": item(), "items": ListOf(item(), 1), "note": Str()}, name="ExtOrder(b<-a)")
def TDTreeS(d=2):
    fields = {"weight": Picked(decimal.Decimal, [decimal.Decimal("1.5"), decimal.Decimal("-2")], name="Decimal")}
    if d > 0:
        fields["left"] = Lazy(lambda: TDTreeS(d - 1))
    return Struct(M.TDTree, fields, kind="typeddict", optional=tuple(fields), name="TDTree")
def LedgerS(): return Struct(M.Ledger, {"balance": DecimalS(), "share": FractionS(), "wait": TimeDeltaS(), "tags": VarTuple(Str(), 1)})
def SChildS(): return Struct(M.SChild, {"ident": Str(), "rank": Int(), "label": Str()})
def WindowS(): return Struct(M.Window, {"span": Struct(M.Span, {"lo": Int(), "hi": Int()}), "size": Int()})
def NamedRecordS(): return Struct(M.NamedRecord, {"id": Int(), "created": DateS(), "name": Str()})
def PermS(): return Picked(M.Perm, [M.Perm.R, M.Perm.R | M.Perm.X, M.Perm(0), M.Perm.R | M.Perm.W | M.Perm.X], name="Perm(Flag)")
def ModeS(): return Picked(M.Mode, [M.Mode.READ, M.Mode.READ | M.Mode.WRITE, M.Mode(0)], name="Mode(IntFlag)")
def SlugS(): return Picked(M.Slug, [M.Slug("abc"), M.Slug(""), M.Slug("1")], name="Slug(str)")
def NFHolderS(): return Struct(M.NFHolder, {"when": Opt(DateS(), "none_first"), "who": Opt(FPointS(), "Union_none_first")})
def LineS(): return Struct(M.Line, {"a": PointS(), "b": PointS(), "label": Str()})
def BagS(): return Struct(M.Bag, {"items": ListOf(Int()), "names": DictOf(Str(), Int()), "maybe": Opt(Int())})
def MixedS(): return Struct(M.Mixed, {"p": PointS(), "tags": ListOf(Str()), "pair": FixedTuple(Int(), Str()),
                                      "opt": Opt(PointS())})
def NTS_(): return Struct(M.NT, {"a": Int(), "b": Str()})
def NTSS(): return Struct(M.NTS, {"name": Str(), "n": Int()})
def SubNTS(): return Struct(M.SubNT, {"a": Int(), "b": Str()}, name="SubNT")
def PlainNTS(): return Struct(M.PlainNT, {"a": Loose(Str()), "b": Loose(Int())}, name="PlainNT")
def TDS(): return Struct(M.TD, {"a": Int(), "b": Str()}, kind="typeddict")
def TDNS(): return Struct(M.TDN, {"a": Int(), "b": Str()}, kind="typeddict", optional=("b",))
def TDChildS(): return Struct(M.TDChild, {"id": Int(), "nick": Str()}, kind="typeddict", optional=("nick",))
def TDReqS(): return Struct(M.TDReq, {"key": Int(), "note": Str()}, kind="typeddict", optional=("note",))
def PlainS(): return Struct(M.Plain, {"a": Int(), "b": Str()})
def SlottedS(): return Struct(M.Slotted, {"a": Int(), "b": Str()})


# ------------------------------------------------------------------------------------------- recursive
def TreeS(d=2):
    kids = Seq(list[M.Tree], list, Lazy(lambda: TreeS(max(d - 1, 0))), 2 if d > 0 else 0, "list[Tree]")
    return Struct(M.Tree, {"v": Int(), "kids": kids}, name="Tree")


def PersonS(d=2):
    peers = Seq(list[M.Person], list, Lazy(lambda: PersonS(max(d - 1, 0))), 1 if d > 0 else 0, "list[Person]")
    return Struct(M.Person, {"age": Int(), "peers": peers}, name="Person")


def TeamS(d=2):
    return Struct(M.Team, {"members": Seq(list[M.Person], list, PersonS(d), 1, "list[Person]")}, name="Team")


def ChainS(d=2):
    nxt = Lazy(lambda: ChainS(max(d - 1, 0)))
    o = _opt_of(nxt, t.Optional[M.Chain], "Optional[Chain]", d > 0)
    return Struct(M.Chain, {"v": Int(), "next": o}, name="Chain")


def PNodeS(d=2):
    nxt = Lazy(lambda: PNodeS(max(d - 1, 0)))
    o = _opt_of(nxt, t.Optional[M.PNode], "PNode|None", d > 0)
    return Struct(M.PNode, {"v": Int(), "next": o}, name="PNode")


def DNodeS(d=2):
    sub = Map(dict[str, M.DNode], dict, Str(), Lazy(lambda: DNodeS(max(d - 1, 0))), 1 if d > 0 else 0, "dict[str,DNode]")
    return Struct(M.DNode, {"v": Int(), "sub": sub}, name="DNode")


def TNodeS(d=2):
    kids = Seq(tuple[M.TNode, ...], tuple, Lazy(lambda: TNodeS(max(d - 1, 0))), 2 if d > 0 else 0, "tuple[TNode,...]")
    return Struct(M.TNode, {"v": Int(), "kids": kids}, name="TNode")


def PingS(d=2):
    o = _opt_of(Lazy(lambda: PongS(max(d - 1, 0))), t.Optional[M.Pong], "Optional[Pong]", d > 0)
    return Struct(M.Ping, {"v": Int(), "pong": o}, name="Ping")


def PongS(d=2):
    o = _opt_of(Lazy(lambda: PingS(max(d - 1, 0))), t.Optional[M.Ping], "Optional[Ping]", d > 0)
    return Struct(M.Pong, {"w": Str(), "ping": o}, name="Pong")


def DeptS(d=2):
    staff = Seq(list[M.Emp], list, Lazy(lambda: EmpS(max(d - 1, 0))), 1 if d > 0 else 0, "list[Emp]")
    return Struct(M.Dept, {"name": Str(), "staff": staff}, name="Dept")


def EmpS(d=2):
    o = _opt_of(Lazy(lambda: DeptS(max(d - 1, 0))), t.Optional[M.Dept], "Optional[Dept]", d > 0)
    return Struct(M.Emp, {"n": Int(), "dept": o}, name="Emp")


def NTreeS(d=2):
    o = _opt_of(Lazy(lambda: NTreeS(max(d - 1, 0))), t.Optional[M.NTree], "Optional[NTree]", d > 0)
    return Struct(M.NTree, {"v": Int(), "parent": o}, name="NTree")


def TDNodeS(d=2):
    kids = Seq(list[M.TDNode], list, Lazy(lambda: TDNodeS(max(d - 1, 0))), 1 if d > 0 else 0, "list[TDNode]")
    return Struct(M.TDNode, {"v": Int(), "kids": kids}, kind="typeddict", name="TDNode")


def HostS(d=2):
    o = _opt_of(Lazy(lambda: ItemS(max(d - 1, 0))), t.Optional[M.Item], "Optional[Item]", d > 0)
    return Struct(M.Host, {"v": Int(), "item": o}, name="Host")


def ItemS(d=2):
    o = _opt_of(Lazy(lambda: HostS(max(d - 1, 0))), t.Optional[M.Host], "Optional[Host]", d > 0)
    return Struct(M.Item, {"n": Int(), "host": o}, name="Item")


def CycS(d=2):
    o = _opt_of(Lazy(lambda: IndS(max(d - 1, 0))), t.Optional[M.Ind], "Optional[Ind]", d > 0)
    return Struct(M.Cyc, {"v": Int(), "back": o}, name="Cyc")


def IndS(d=2):
    return Struct(M.Ind, {"v": Int(), "direct": Lazy(lambda: CycS(max(d - 1, 0)))}, name="Ind")


class _OptRec(Shape):
    def __init__(self, inner, T, name, live):
        self.inner, self.T, self.name, self.live = inner, T, name, live

    def build(self, src):
        if not self.live:
            return None
        x = self.inner.build(src)
        return x if src.bool() else None

    def same(self, v, r):
        if v is None:
            return r is None
        return r is not None and self.inner.same(v, r)

    def conforms(self, r):
        return None if r is None else self.inner.conforms(r)


def _opt_of(inner, T, name, live):
    return _OptRec(inner, T, name, live)


# ------------------------------------------------------------------------------------------- catalogue
def scalars_transparent():
    return [Int(), Bool(), Float(), Str(), Bytes(), ByteArrayS(), NoneS(), EnumS(M.Color), EnumS(M.Mood), EnumS(M.Level), EnumS(M.Tag),
            EnumS(M.Swap), EnumS(M.Kind), EnumS(M.Gain), Lit(1, 2, "a"), Lit("x", "y"), Lit(True, 3), Lit("2", 2, "null", None)]


def scalars_realised():
    # root-level scalars carry the adversarial values too (negative durations, non-UTC offsets); inside
    # composites the "safe" lists are used so that a known leaf-level finding cannot mask a composite one
    return [DecimalS(), FractionS(), UUIDS_(), PathS(), PurePathS(), DateS(), DateTimeS(), TimeS(safe=False),
            TimeDeltaS(safe=False), PatternS(safe=False), PermS(), ModeS(), SlugS()]


def containers1():
    return [
        ListOf(Int()), TListOf(Int()), SequenceOf(Str()), SetOf(Int(-2, 2)), FrozenSetOf(Int(-2, 2)), DequeOf(Int()),
        VarTuple(Int()), FixedTuple(Int(), Str()), FixedTuple(Int(), Str(), Bool()), DictOf(Str(), Int()),
        DictOf(Int(-2, 2), Str()), MappingOf(Str(), Int()), Opt(Int()), Opt(Str()), Opt(Int(), "pipe"),
        ListOf(Bool()), ListOf(Float()), ListOf(Str()), SetOf(Str(picks=["", "a", "1", "ab"])),
        Seq(t.MutableSequence[int], list, Int(), 2, "MutableSequence[int]"),
        Seq(t.Collection[int], list, Int(), 2, "Collection[int]"),
        Seq(t.Iterable[int], list, Int(), 2, "Iterable[int]"),
        Seq(t.AbstractSet[int], set, Int(-2, 2), 2, "AbstractSet[int]"), MutableSetOf(Int(-2, 2)),
        Opt(Str(), "pipe"), Opt(Bool(), "pipe"),
        Seq(t.Deque[int], collections.deque, Int(), 2, "Deque[int]"),
        Map(t.MutableMapping[str, int], dict, Str(), Int(), 2, "MutableMapping[str,int]"),
        Map(t.Dict[str, int], dict, Str(), Int(), 2, "Dict[str,int]"),
    ]


def structured():
    return [PointS(), SPointS(), FPointS(), KPointS(), LineS(), BagS(), MixedS(), NTS_(), NTSS(), TDS(), TDNS(),
            TDChildS(), TDReqS(), PlainS(), SlottedS(), SubNTS(), PlainNTS(), WithCVS(), JobS(), TDOptS(), ExtOrderS(), LedgerS(), SChildS(), WindowS(), NamedRecordS()]


def wrappers():
    return [
        Wrapped(M.UserId, Int(), "NewType(int)"), Wrapped(M.Name, Str(), "NewType(str)"),
        Wrapped(M.IntList, ListOf(Int()), "alias(list[int])"), Wrapped(M.PointAlias, PointS(), "alias(Point)"),
        Wrapped(M.StrAlias, Str(), "alias('str')"), Wrapped(t.Final[int], Int(), "Final[int]"),
        Wrapped(t.ClassVar[int], Int(), "ClassVar[int]"),
    ]


def recursive(d=2):
    return [TreeS(d), ChainS(d), PNodeS(d), DNodeS(d), TNodeS(d), PingS(d), DeptS(d), NTreeS(d), TDNodeS(d), HostS(d), ItemS(d),
            CycS(d), IndS(d), TDTreeS(d), TeamS(d)]


def depth2():
    return [
        ListOf(ListOf(Int())), DictOf(Str(), ListOf(Int())), ListOf(PointS()), DictOf(Str(), PointS()),
        ListOf(Opt(Int())), FixedTuple(PointS(), ListOf(Int())), Opt(ListOf(Int())), ListOf(DateS()),
        DictOf(Str(), DecimalS()), ListOf(EnumS(M.Color)), Opt(PointS()), ListOf(FixedTuple(Int(), Str())),
        DictOf(Str(), Opt(Str())), VarTuple(NTS_()), ListOf(TDS()), Opt(DateTimeS()), ListOf(UUIDS_()),
        DictOf(EnumS(M.Mood), Int()), FixedTuple(DateS(), TimeDeltaS(), Int()), ListOf(TimeDeltaS()),
        UnionS(Int(-2, 2), Str(picks=["", "a", "1"])), UnionS(PointS(), Int(-2, 2)), ListOf(UnionS(Int(-2, 2), Str(picks=["", "a", "1"]))),
        DictOf(Str(picks=["a", "b"]), UnionS(Int(-2, 2), PointS())),
        UnionS(Str(picks=["", "a", "None"]), NoneS(), Int(-2, 2)),
        # None declared first (X == Optional[X] as cache keys: the inner types below occur in no other optional)
        Opt(DateS(), "none_first"), Opt(SPointS(), "none_first"), Opt(DecimalS(), "Union_none_first"),
        ListOf(Opt(EnumS(M.Level), "none_first")), NFHolderS(),
    ]


def depth3():
    return [
        ListOf(DictOf(Str(), ListOf(Int()))), DictOf(Str(), ListOf(PointS())), ListOf(ListOf(ListOf(Int(), 1), 2), 2),
        Opt(ListOf(Opt(PointS()))), ListOf(MixedS(), 1), DictOf(Str(), BagS(), 1), ListOf(LineS(), 1),
        FixedTuple(ListOf(PointS()), DictOf(Str(), Opt(Int()))), ListOf(TreeS(1), 1), DictOf(Str(), ChainS(1), 1),
        Opt(ListOf(DictOf(Str(), DateS()))), ListOf(FixedTuple(Int(), ListOf(Str()))),
    ]


CORE = {
    "int", "bool", "float", "str", "bytes", "None", "SubNT", "Color", "Mood", "Level", "Tag", "Literal[1, 2, 'a']", "Literal[True, 3]",
    "Decimal", "UUID", "date", "datetime", "time", "timedelta", "PosixPath" , "Path",
    "list[int]", "Sequence[str]", "set[int]", "deque[int]", "tuple[int,...]", "tuple[int,str]", "tuple[int,str,bool]",
    "dict[str,int]", "dict[int,str]", "Mapping[str,int]", "Optional[int]", "Optional[str]", "int|None",
    "Point", "SPoint", "KPoint", "Line", "Bag", "Mixed", "NT", "NTS", "TD", "TDN", "TDChild", "TDReq", "Plain", "Slotted",
    "NewType(int)", "alias(list[int])", "alias(Point)", "alias('str')", "Final[int]",
    "Tree", "Chain", "DNode", "Ping", "Dept", "NTree", "TDNode", "Item", "Cyc", "Ind",
    "list[list[int]]", "dict[str,list[int]]", "list[Point]", "dict[str,Point]", "list[Optional[int]]",
    "tuple[Point,list[int]]", "Optional[Point]", "list[date]", "list[TD]", "list[tuple[int,str]]",
    "Union[int,str]", "Union[Point,int]", "list[Union[int,str]]", "PlainNT", "None|date", "None|SPoint", "NFHolder", "Swap", "Kind", "bytearray", "MutableSet[int]", "str|None", "bool|None", "WithCV", "Gain", "Perm(Flag)", "Mode(IntFlag)", "Slug(str)", "Job", "TDOpt", "ExtOrder(b<-a)", "TDTree", "Union[str,None,int]", "Team", "Ledger", "SChild", "Window", "NamedRecord", "Literal['2', 2, 'null', None]",
}


def select(tier: str, seed: int = 0, extra: int = 8):
    """quick: the fixed core plus a seed-rotated slice of the rest; thorough: everything."""
    cat = catalogue(tier)
    if tier != "quick":
        return cat
    core = [s for s in cat if s.name in CORE]
    rest = [s for s in cat if s.name not in CORE]
    if rest and extra:
        k = (seed * extra) % len(rest)
        core += (rest + rest)[k:k + extra]
    return core


def catalogue(tier: str, union_free=False):
    cat = scalars_transparent() + scalars_realised() + containers1() + structured() + wrappers() + recursive(2) + depth2()
    if tier == "thorough":
        cat += depth3() + recursive(3)
        # names must stay unique
    seen, out = set(), []
    for s in cat:
        nm = s.name
        k = 1
        while nm in seen:
            k += 1
            nm = f"{s.name}#{k}"
        s.name = nm
        seen.add(nm)
        out.append(s)
    return out
