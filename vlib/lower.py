"""Source-lowering import hook (DESIGN 2.2).

typelib is imported from $VERIF_REPO/src (default /repo/src) through a SourceFileLoader subclass that
bypasses .pyc files and applies two AST rewrites before compile():
    X.__class__  (load context)  ->  type(X)
    raise E(f"..{x!r}..") / warnings.warn(f"..")  ->  the same with the message reduced to its literal parts
CrossHair intercepts type() but a proxy's .__class__ is the proxy class.  The rewrite is an identity on
every object that does not spoof __class__.
"""
import ast
import importlib.abc
import importlib.machinery
import importlib.util
import os
import sys

REPO = os.environ.get("VERIF_REPO", "/repo")
SRC = os.path.join(REPO, "src")
STATS = {"modules": [], "rewrites": 0, "messages": 0}


class _Lower(ast.NodeTransformer):
    def __init__(self):
        self.n = 0
        self.m = 0

    def visit_Attribute(self, node):
        self.generic_visit(node)
        if node.attr == "__class__" and isinstance(node.ctx, ast.Load):
            self.n += 1
            return ast.copy_location(
                ast.Call(func=ast.Name(id="type", ctx=ast.Load()), args=[node.value], keywords=[]), node
            )
        return node

    # Exception / warning message texts are abstracted: formatting a symbolic value with !r makes the
    # engine enumerate digit counts (SymbolicInt.__repr__ loops per digit) although no property
    # observes the text.  `raise E(f"...")` and `warnings.warn(f"...")` keep only the literal parts.
    def visit_Raise(self, node):
        self.generic_visit(node)
        if isinstance(node.exc, ast.Call):
            node.exc.args = [self._flatten(a) for a in node.exc.args]
        return node

    def visit_Call(self, node):
        self.generic_visit(node)
        f = node.func
        if isinstance(f, ast.Attribute) and f.attr == "warn" and isinstance(f.value, ast.Name) and f.value.id == "warnings":
            node.args = [self._flatten(a) for a in node.args]
        return node

    def _flatten(self, a):
        if isinstance(a, ast.JoinedStr):
            self.m += 1
            text = "".join(v.value if isinstance(v, ast.Constant) and isinstance(v.value, str) else "{}" for v in a.values)
            return ast.copy_location(ast.Constant(value=text), a)
        if isinstance(a, ast.BinOp) and isinstance(a.op, ast.Add):  # implicit concatenation of f-strings
            l, r = self._flatten(a.left), self._flatten(a.right)
            if isinstance(l, ast.Constant) and isinstance(r, ast.Constant) and isinstance(l.value, str) and isinstance(r.value, str):
                return ast.copy_location(ast.Constant(value=l.value + r.value), a)
        return a


class Loader(importlib.machinery.SourceFileLoader):
    def source_to_code(self, data, path, *, _optimize=-1):
        tree = ast.parse(data, filename=path)
        lw = _Lower()
        tree = lw.visit(tree)
        ast.fix_missing_locations(tree)
        STATS["rewrites"] += lw.n
        STATS["messages"] += lw.m
        STATS["modules"].append(os.path.relpath(path, SRC))
        return compile(tree, path, "exec", dont_inherit=True, optimize=_optimize)

    def get_code(self, fullname):  # bypass the pyc cache: always the current working tree
        path = self.get_filename(fullname)
        return self.source_to_code(self.get_data(path), path)


class Finder(importlib.abc.MetaPathFinder):
    def find_spec(self, fullname, path, target=None):
        if fullname != "typelib" and not fullname.startswith("typelib."):
            return None
        rel = fullname.replace(".", "/")
        cand = f"{SRC}/{rel}/__init__.py"
        if os.path.exists(cand):
            return importlib.util.spec_from_file_location(
                fullname, cand, loader=Loader(fullname, cand), submodule_search_locations=[os.path.dirname(cand)]
            )
        cand = f"{SRC}/{rel}.py"
        if os.path.exists(cand):
            return importlib.util.spec_from_file_location(fullname, cand, loader=Loader(fullname, cand))
        return None


_installed = False


def install():
    global _installed
    if _installed:
        return
    assert not any(m == "typelib" or m.startswith("typelib.") for m in sys.modules), "typelib already imported"
    sys.meta_path.insert(0, Finder())
    _installed = True
