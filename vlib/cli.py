"""vcheck command line (runs in the pristine /venv interpreter; workers run in /verif/.venv)."""
from __future__ import annotations

import argparse
import json
import os
import sys

ROOT = os.path.dirname(os.path.dirname(os.path.abspath(__file__)))
sys.path.insert(0, ROOT)
sys.path.insert(0, os.path.join(os.environ.get("VERIF_REPO", "/repo"), "src"))  # the tree under test
os.environ.setdefault("TZ", "UTC")
os.environ.pop("VERIF_MODE", None)
sys.setrecursionlimit(10000)


def main():
    ap = argparse.ArgumentParser(prog="vcheck")
    sub = ap.add_subparsers(dest="cmd", required=True)
    r = sub.add_parser("run")
    r.add_argument("prop")
    r.add_argument("--tier", default=os.environ.get("VERIF_TIER", "quick"), choices=["quick", "thorough"])
    r.add_argument("--seed", type=int, default=int(os.environ.get("VERIF_SEED", "0") or 0))
    r.add_argument("--only", action="append")
    p = sub.add_parser("replay")
    p.add_argument("path")
    ls = sub.add_parser("list")
    ls.add_argument("prop")
    ls.add_argument("--tier", default="quick")
    a = ap.parse_args()
    if a.cmd == "run":
        from vlib import runner

        sys.exit(runner.run_property(a.prop.upper(), a.tier, a.seed, a.only))
    if a.cmd == "list":
        from vlib.props import load

        for c in load(a.prop.upper()).conditions(a.tier, 0):
            print(c.mode, c.timeout, c.name)
        return
    if a.cmd == "replay":
        from vlib import replay

        rec = json.load(open(a.path))
        out = replay.run(rec)
        print(json.dumps(out))
        if out.get("status") == "fails":
            print(f"VIOLATION property={rec['property']} replay={a.path}")
            sys.exit(1)
        sys.exit(0)


if __name__ == "__main__":
    main()
