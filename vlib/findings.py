"""Known findings (DESIGN 2.4).  /verif/known_findings.json is committed and never written at run time.

entry: {id, property, kind, site, cond (fnmatch pattern, optional), when (python expression over the
realised arguments, optional), what, status: open|fixed, example: {cond, args}, commit?}
Only `open` entries suppress anything; `fixed` entries are documentation.
"""
from __future__ import annotations

import fnmatch
import json
import os

from vlib.cond import dec_args

PATH = os.path.join(os.path.dirname(os.path.dirname(os.path.abspath(__file__))), "known_findings.json")


def load_all():
    if not os.path.exists(PATH):
        return []
    return json.load(open(PATH))["findings"]


def load_known(prop):
    return [k for k in load_all() if k["property"] == prop and k.get("status") == "open"]


def _any(patterns, value):
    """A KF kind / site is a glob pattern or a list of them ('[' is literal)."""
    if isinstance(patterns, str):
        patterns = [patterns]
    return any(fnmatch.fnmatchcase(value, p.replace("[", "[[]")) for p in patterns)


def match(kf, cond_name, failure):
    for k in kf:
        if not _any(k["kind"], failure["kind"]) or not _any(k["site"], failure["site"]):
            continue
        if k.get("cond") and not fnmatch.fnmatchcase(cond_name, k["cond"]):
            continue
        if k.get("when"):
            try:
                if not eval(k["when"], {}, dict(dec_args(failure.get("args", {})))):  # noqa: S307
                    continue
            except Exception:  # noqa: BLE001
                continue
        return k
    return None


def match_id(kf, cond_name, failure):
    k = match(kf, cond_name, failure)
    return k["id"] if k else None
