"""Worker process: explores a batch of conditions of one property under the engine.

usage: python -m vlib.worker <property> <tier> <seed> <cond-name> [<cond-name> ...]
Prints one JSON line per finished condition (so that an outer kill loses only the condition in flight).
"""
from __future__ import annotations

import json
import os
import sys
import time

os.environ["VERIF_MODE"] = "symbolic"
sys.setrecursionlimit(10000)


def main(argv):
    prop, tier, seed = argv[0], argv[1], int(argv[2])
    names = argv[3:]
    if names and names[0].startswith("@"):
        names = json.load(open(names[0][1:]))
    t0 = time.time()
    from vlib import engine, findings, prelude  # noqa: F401
    from vlib.props import load

    mod = load(prop)
    conds = {c.name: c for c in mod.conditions(tier, seed)}
    kf = findings.load_known(prop)
    setup_s = round(time.time() - t0, 2)
    for name in names:
        c = conds.get(name)
        if c is None:
            print(json.dumps({"cond": name, "verdict": "inconclusive:missing"}), flush=True)
            continue
        try:
            if c.mode == "E2":
                res = c.solve()
            else:
                res = engine.explore(c, c.timeout, seed, classify=lambda f, _n=name: findings.match_id(kf, _n, f))
        except BaseException as e:  # noqa: BLE001
            import traceback

            res = {"verdict": "inconclusive:engine_crash", "errors": [{"exc": repr(e)[:300], "tb": traceback.format_exc()[-1500:]}],
                   "paths": 0, "failures": []}
        res["cond"] = name
        res["mode"] = c.mode
        res["setup_s"] = setup_s
        res["candidates"] = res.pop("failures", [])
        res.setdefault("known", [])
        print(json.dumps(res), flush=True)


if __name__ == "__main__":
    main(sys.argv[1:])
