"""Check driver (native interpreter): schedules the conditions of one property over worker processes,
replays every candidate counterexample natively, applies the known-findings file, writes the evidence
file and decides the exit code."""
from __future__ import annotations

import concurrent.futures as cf
import hashlib
import json
import os
import subprocess
import sys
import tempfile
import time

ROOT = os.path.dirname(os.path.dirname(os.path.abspath(__file__)))
VENV_PY = os.path.join(ROOT, ".venv", "bin", "python")
if not os.path.exists(VENV_PY):  # running from a snapshot / worktree of /verif: the overlay env lives in /verif
    VENV_PY = "/verif/.venv/bin/python"
NATIVE_PY = "/venv/bin/python"
WORK = os.path.join(ROOT, ".work")
NPROC = int(os.environ.get("VERIF_JOBS", "16"))


REPO = os.environ.get("VERIF_REPO", "/repo")          # the tree under test (default: /repo itself)
OUT = os.environ.get("VERIF_OUT", ROOT)               # where evidence/ and replays/ are written


def _env(symbolic: bool):
    env = dict(os.environ)
    # the tree under test must shadow the copy that /venv's typelib.pth points to
    env["PYTHONPATH"] = os.path.join(REPO, "src") + os.pathsep + ROOT
    env["TZ"] = "UTC"
    env["PYTHONHASHSEED"] = "0"
    env["PYTHONDONTWRITEBYTECODE"] = "1"
    env["PYTHONWARNINGS"] = "ignore"
    if symbolic:
        env["VERIF_MODE"] = "symbolic"
    else:
        env.pop("VERIF_MODE", None)
    return env


def _run_worker(prop, tier, seed, names, budget):
    os.makedirs(WORK, exist_ok=True)
    with tempfile.NamedTemporaryFile("w", suffix=".json", dir=WORK, delete=False) as f:
        json.dump(names, f)
        lst = f.name
    out, err = [], ""
    try:
        p = subprocess.run(
            [VENV_PY, "-m", "vlib.worker", prop, tier, str(seed), "@" + lst],
            cwd=ROOT, env=_env(True), capture_output=True, text=True, timeout=budget,
        )
        stdout, err = p.stdout, p.stderr
    except subprocess.TimeoutExpired as e:
        stdout = e.stdout.decode() if isinstance(e.stdout, bytes) else (e.stdout or "")
        err = "worker killed after %ss" % budget
    finally:
        os.unlink(lst)
    for line in stdout.splitlines():
        line = line.strip()
        if line.startswith("{"):
            try:
                out.append(json.loads(line))
            except ValueError:
                pass
    done = {r["cond"] for r in out}
    for n in names:
        if n not in done:
            out.append({"cond": n, "verdict": "inconclusive:worker_lost", "paths": 0, "candidates": [], "known": [],
                        "errors": [{"exc": err[-600:]}]})
    return out


def native_replay(rec: dict, timeout=120) -> dict:
    os.makedirs(WORK, exist_ok=True)
    with tempfile.NamedTemporaryFile("w", suffix=".json", dir=WORK, delete=False) as f:
        json.dump(rec, f)
        path = f.name
    try:
        p = subprocess.run([NATIVE_PY, "-m", "vlib.replay", path], cwd=ROOT, env=_env(False),
                           capture_output=True, text=True, timeout=timeout)
        for line in reversed(p.stdout.splitlines()):
            if line.startswith("{"):
                return json.loads(line)
        return {"status": "replay_crashed", "stderr": p.stderr[-600:]}
    except subprocess.TimeoutExpired:
        return {"status": "replay_timeout"}
    finally:
        os.unlink(path)


def run_property(prop: str, tier: str, seed: int, only=None) -> int:
    from vlib import findings
    from vlib.props import load

    t0 = time.time()
    mod = load(prop)
    conds = mod.conditions(tier, seed)
    if only:
        conds = [c for c in conds if any(o in c.name for o in only)]
    meta = getattr(mod, "META", {})
    by_name = {c.name: c for c in conds}
    assert len(by_name) == len(conds), "duplicate condition names"
    # -- schedule: longest first, small chunks so that the 16 workers stay busy --------------------------
    order = sorted(conds, key=lambda c: -c.timeout)
    nchunks = max(1, min(len(order), NPROC * 3))
    chunks = [[] for _ in range(nchunks)]
    for i, c in enumerate(order):
        chunks[i % nchunks].append(c)
    results = []
    with cf.ThreadPoolExecutor(NPROC) as ex:
        futs = [ex.submit(_run_worker, prop, tier, seed, [c.name for c in ch],
                          sum(c.timeout for c in ch) * 1.6 + 90) for ch in chunks if ch]
        for f in cf.as_completed(futs):
            results.extend(f.result())
    results.sort(key=lambda r: r["cond"])
    # -- replay candidates natively ----------------------------------------------------------------------
    kf_open = findings.load_known(prop)
    violations, spurious, known_seen = [], [], {}
    rdir = os.path.join(OUT, "replays", prop)
    for r in results:
        for k in r.get("known", []):
            known_seen.setdefault(k["kf"], {"cond": r["cond"], "args": k["args"]})
        for cand in r.get("candidates", []):
            rec = {"property": prop, "cond": r["cond"], "tier": tier, "seed": seed, "args": cand["args"],
                   "descriptor": [cand["kind"], cand["site"], cand.get("detail", "")]}
            out = native_replay(rec)
            if out.get("status") == "fails":
                nat = {"kind": out["kind"], "site": out["site"], "args": cand["args"]}
                k = findings.match(kf_open, r["cond"], nat)
                if k is not None:
                    known_seen.setdefault(k["id"], {"cond": r["cond"], "args": cand["args"]})
                    continue
                os.makedirs(rdir, exist_ok=True)
                digest = hashlib.sha1(json.dumps(rec, sort_keys=True).encode()).hexdigest()[:12]
                path = os.path.join(rdir, digest + ".json")
                rec["native"] = out
                json.dump(rec, open(path, "w"), indent=1)
                violations.append({"cond": r["cond"], "kind": out["kind"], "site": out["site"],
                                   "detail": out.get("detail", ""), "args": cand["args"], "replay": path})
            else:
                spurious.append({"cond": r["cond"], "claimed": [cand["kind"], cand["site"]], "native": out.get("status"),
                                 "args": cand["args"]})
                r["verdict"] = "inconclusive:spurious_counterexample"
    # -- known findings: witness each open entry natively ----------------------------------------------
    kf_lines = []
    for k in kf_open:
        ex_ = k.get("example")
        if not ex_:
            continue
        out = native_replay({"property": prop, "cond": ex_["cond"], "tier": ex_.get("tier", "quick"), "seed": ex_.get("seed", 0),
                             "args": ex_["args"]})
        still = out.get("status") == "fails" and findings.match(
            [k], ex_["cond"], {"kind": out.get("kind"), "site": out.get("site"), "args": ex_["args"]}) is not None
        k["_witnessed"] = still
        if still:
            kd = k["kind"] if isinstance(k["kind"], str) else k["kind"][0] + "|.."
            st_ = k["site"] if isinstance(k["site"], str) else k["site"][0] + "|.."
            kf_lines.append(f"KNOWN-FINDING: property={prop} {k['id']} {kd}@{st_}: {k['what']}")
    # -- verdicts ----------------------------------------------------------------------------------------
    closed, inconc = [], []
    for r in results:
        v = r.get("verdict", "inconclusive:?")
        if v == "closed" and by_name[r["cond"]].mode != "E2" and r.get("oracle_reached", 0) == 0:
            v = r["verdict"] = "inconclusive:vacuous"
        (closed if v == "closed" else inconc).append(r)
    paths = sum(r.get("paths", 0) for r in results)
    reached = sum(r.get("oracle_reached", 0) for r in results)
    samples = []
    for r in results:
        for s in r.get("samples", [])[:1]:
            samples.append({"cond": r["cond"], "args": s})
    ev = {
        "property_id": prop,
        "tier": tier,
        "seed": seed,
        "level": "other",
        "coverage": {
            "explanation": (
                "bounded symbolic verification: each obligation (condition) is the real typelib code executed "
                "symbolically by CrossHair/z3 (or, for E2, a z3 query over an encoding regenerated from the source); "
                "'discharged' = the solver closed every path of the bounded input space with the assertion holding; "
                "anything else is inconclusive and is neither a pass of that obligation nor a violation"
            ),
            "obligations": len(results),
            "discharged": len(closed),
            "inconclusive": [{"cond": r["cond"], "why": r["verdict"], "paths": r.get("paths", 0),
                              "unknown_reasons": r.get("unknown_reasons", {})} for r in inconc],
            "evaluations": paths,
            "distinct_nontrivial": reached,
            "rule": "evaluations = symbolic paths explored (each path is a distinct input class: the solver never "
                    "revisits a decided branch); distinct_nontrivial = paths that passed every assumption and reached "
                    "the oracle, counted by the harness",
            "samples": samples[:25],
            "exhaustive": len(inconc) == 0,
            "functions_encoded": meta.get("functions", []),
            "bounds": meta.get("bounds", {}).get(tier, meta.get("bounds", "")),
            "modes": sorted({by_name[r["cond"]].mode for r in results}),
            "solver": {"z3_checks": sum(r.get("z3_checks", 0) for r in results),
                       "z3_secs": round(sum(r.get("z3_secs", 0.0) for r in results), 2),
                       "cpu_s": round(sum(r.get("cpu_s", 0.0) for r in results), 1)},
            "known_findings_witnessed": [k["id"] for k in kf_open if k.get("_witnessed")],
            "known_findings_stale": [k["id"] for k in kf_open if k.get("example") and not k.get("_witnessed")],
            "known_finding_paths": {k: v for r in results for k, v in r.get("known_hits", {}).items()},
            "spurious_counterexamples": spurious[:20],
            "per_condition": [{"cond": r["cond"], "mode": r.get("mode"), "verdict": r["verdict"], "paths": r.get("paths", 0),
                               "reached": r.get("oracle_reached", 0), "z3_checks": r.get("z3_checks", 0),
                               "cpu_s": r.get("cpu_s", 0)} for r in results],
            "errors": [{"cond": r["cond"], **e} for r in results for e in r.get("errors", [])][:10],
            "e2": [{"cond": r["cond"], "domain": r.get("domain"), "encoded_statements": r.get("encoded_statements"),
                    "templates": r.get("templates"), "validation_points": r.get("validation_points"),
                    "queries": len(r.get("queries", [])),
                    "query_verdicts": sorted({(q["query"], q["z3_5.1"], q["z3_4.8.12"]) for q in r.get("queries", [])}),
                    "solver_secs": r.get("z3_secs")} for r in results if r.get("mode") == "E2"],
        },
        "assumptions": meta.get("assumptions", []) + [
            "CrossHair 0.0.110 / z3 models of the Python builtins are faithful (every counterexample is re-executed "
            "natively before it is reported; a confirmed path relies on the model)",
            "typelib is compiled from /repo/src with X.__class__ lowered to type(X); type-keyed lru caches are kept, "
            "value-keyed caches are bypassed under tracing; orjson.loads/dumps realise their arguments",
            "TZ=UTC; inputs whose result depends on now() are outside every domain",
        ],
        "wall_s": round(time.time() - t0, 2),
        "violations": len(violations),
    }
    os.makedirs(os.path.join(OUT, "evidence"), exist_ok=True)
    json.dump(ev, open(os.path.join(OUT, "evidence", f"{prop}.json"), "w"), indent=1)
    print(f"[{prop}/{tier}] obligations={len(results)} discharged={len(closed)} inconclusive={len(inconc)} "
          f"paths={paths} reached={reached} violations={len(violations)} wall={ev['wall_s']}s")
    for r in inconc:
        print(f"  inconclusive {r['cond']}: {r['verdict']} paths={r.get('paths', 0)} {r.get('unknown_reasons', '')}")
    for e in ev["coverage"]["errors"][:5]:
        print("  error", e.get("cond"), e.get("exc"), file=sys.stderr)
    for line in kf_lines:
        print(line)
    for v in violations:
        print(f"  violated {v['cond']}: {v['kind']}@{v['site']} {v['detail']} args={json.dumps(v['args'])}")
    seen = set()
    for v in violations:
        if v["replay"] not in seen:
            seen.add(v["replay"])
            print(f"VIOLATION property={prop} replay={v['replay']}")
    return 1 if violations else 0
